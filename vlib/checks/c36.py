"""C36 — schema migrations preserve recorded data.

Monitor: for every historical schema version a database is created at that version with redun's own
migrate(desired_version=v), populated through schema reflection with foreign-key-consistent generated
rows (job trees with and without an execution row, tasks with and without companion values, naive
timestamps with microseconds, NULLs, long type names, binary blobs), upgraded to the latest version by
the real migration chain, and compared row by row on the columns both versions share.  Afterwards
load() must accept the file and a scheduler run on it must record and then replay.
"""
import os
import random
import shutil
import sqlite3
import tempfile

from redun.backends.db import REDUN_DB_VERSIONS, RedunBackendDb
from redun.config import create_config_section

from vlib import ctl, engine, hist

PROPERTY = "C36"
LEVEL = "exploration"
RULE = ("each of the 11 schema versions as a starting point x generated populations (5-40 rows per table; job forests "
        "with root jobs lacking an execution row for schemas before 2.3/3.0, tasks lacking companion values before 2.1, "
        "timestamps with and without fractional seconds, NULL end_time/call_hash, type names up to 150 characters where "
        "the schema allows, blobs with NUL bytes).  Non-trivial = distinct (version, population seed) with >=1 job tree of "
        "depth >=2.")
ASSUMPTIONS = ["SQLite only; TZ=UTC for the timestamp migration", "multiset inclusion: migrations may add rows (stub "
               "executions, companion values) but must not drop or alter existing ones on shared columns",
               "timestamps are compared as instants"]

os.environ.setdefault("TZ", "UTC")


def hx(rnd):
    return "%040x" % rnd.getrandbits(160)


def cols(con, table):
    return [r[1] for r in con.execute('PRAGMA table_info("%s")' % table)]


def tables(con):
    return [r[0] for r in con.execute("select name from sqlite_master where type='table'")]


def ts(rnd, frac=True):
    base = "20%02d-%02d-%02d %02d:%02d:%02d" % (rnd.randint(19, 24), rnd.randint(1, 12), rnd.randint(1, 28), rnd.randint(0, 23),
                                               rnd.randint(0, 59), rnd.randint(0, 59))
    if frac and rnd.random() < 0.7:
        # boundary fractions too: SQLite's datetime() rounds at .9995, midnight / minute roll-overs
        base += ".%06d" % rnd.choice([rnd.randint(0, 999999), rnd.randint(0, 999999), 999999, 999500, 999499, 0, 1, 500000])
    if rnd.random() < 0.05:
        base = base[:11] + "23:59:59" + base[19:]
    return base


def insert(con, table, row):
    have = cols(con, table)
    row = {k: v for k, v in row.items() if k in have}
    con.execute('insert into "%s" (%s) values (%s)' % (table, ", ".join('"%s"' % k for k in row), ", ".join("?" for _ in row)),
                list(row.values()))


def populate(con, rnd, version):
    tb = set(tables(con))
    n = rnd.randint(5, 40)
    type_len = 100 if (version.major, version.minor) < (3, 2) else 150
    tasks, values, calls = [], [], []
    for i in range(n):
        h = hx(rnd)
        insert(con, "task", {"hash": h, "name": "t%d" % i, "namespace": rnd.choice(["", "ns", "a.b"]), "source": "def t%d(): pass\n" % i})
        tasks.append(h)
        # companion value (always from 2.1 on; before that sometimes missing)
        if (version.major, version.minor) >= (2, 1) or rnd.random() < 0.5:
            insert(con, "value", {"value_hash": h, "type": "redun.Task", "format": "application/python-pickle", "value": b"\x80\x03N."})
    for i in range(n):
        h = hx(rnd)
        tname = rnd.choice(["builtins.int", "builtins.str", "x" * rnd.randint(1, type_len), "redun.File"])
        insert(con, "value", {"value_hash": h, "type": tname, "format": "application/python-pickle",
                              "value": bytes(rnd.getrandbits(8) for _ in range(rnd.randint(0, 40))) + b"\x00\xff"})
        values.append(h)
        if tname == "redun.File":
            insert(con, "file", {"value_hash": h, "path": "/p/%d" % i})
    for i in range(max(1, n // 3)):
        insert(con, "subvalue", {"value_hash": rnd.choice(values), "parent_value_hash": values[i]}) if values[i] != values[-1 - i] else None
    for i in range(n):
        h = hx(rnd)
        insert(con, "call_node", {"call_hash": h, "task_name": "ns.t%d" % i, "task_hash": rnd.choice(tasks), "args_hash": hx(rnd),
                                  "value_hash": rnd.choice(values), "timestamp": ts(rnd)})
        calls.append(h)
        ah = hx(rnd)
        insert(con, "argument", {"arg_hash": ah, "call_hash": h, "value_hash": rnd.choice(values),
                                 "arg_position": rnd.choice([0, 1, None]), "arg_key": rnd.choice([None, "k"])})
        if i:
            insert(con, "argument_result", {"arg_hash": ah, "result_call_hash": calls[rnd.randrange(i)]})
            insert(con, "call_edge", {"parent_id": h, "child_id": calls[rnd.randrange(i)], "call_order": 0})
        insert(con, "call_subtree_task", {"call_hash": h, "task_hash": rnd.choice(tasks)})
        if "evaluation" in tb:
            insert(con, "evaluation", {"eval_hash": hx(rnd), "task_hash": rnd.choice(tasks), "args_hash": hx(rnd), "value_hash": rnd.choice(values)})
    # job forests
    has_exec_col = "execution_id" in cols(con, "job")
    must_have_exec = (version.major, version.minor) >= (3, 0)
    jobs = []
    deep = False
    for r in range(rnd.randint(2, 6)):
        root = "job-%d-%s" % (r, hx(rnd)[:8])
        with_exec = must_have_exec or rnd.random() < 0.6
        ex_id = "exec-%d-%s" % (r, hx(rnd)[:8]) if with_exec else None
        tree = [(root, None, 0)]
        for k in range(rnd.randint(0, 6)):
            p = rnd.choice(tree)
            tree.append(("job-%d-%d-%s" % (r, k, hx(rnd)[:6]), p[0], p[2] + 1))
            if p[2] + 1 >= 2:
                deep = True
        for jid, parent, depth in tree:
            row = {"id": jid, "start_time": ts(rnd), "end_time": rnd.choice([None, ts(rnd)]), "task_hash": rnd.choice(tasks),
                   "cached": rnd.choice([0, 1]), "call_hash": rnd.choice([None, rnd.choice(calls)]), "parent_id": parent}
            if has_exec_col:
                row["execution_id"] = ex_id if (must_have_exec or rnd.random() < 0.7) else None
            insert(con, "job", row)
            jobs.append(jid)
        if with_exec:
            erow = {"id": ex_id, "args": '["redun", "run", "%d"]' % r, "job_id": root}
            if "updated_time" in cols(con, "execution"):
                erow["updated_time"] = rnd.choice([None, ts(rnd)])
            insert(con, "execution", erow)
    if "handle" in tb:
        hs = []
        for i in range(rnd.randint(0, 5)):
            hh = hx(rnd)
            insert(con, "handle", {"hash": hh, "fullname": "ns.h", "value_hash": rnd.choice(values), "key": "", "is_valid": rnd.choice([0, 1])})
            if hs:
                insert(con, "handle_edge", {"parent_id": rnd.choice(hs), "child_id": hh})
            hs.append(hh)
    if "tag" in tb:
        th = []
        for i in range(rnd.randint(0, 8)):
            t = hx(rnd)
            insert(con, "tag", {"tag_hash": t, "entity_type": rnd.choice(["Job", "Value", "Execution"]), "entity_id": rnd.choice(jobs + values),
                                "key": "k%d" % (i % 3), "value": rnd.choice(['"v"', "1", "[1, 2]"]), "is_current": rnd.choice([0, 1])})
            if th and rnd.random() < 0.4:
                insert(con, "tag_edit", {"parent_id": rnd.choice(th), "child_id": t})
            th.append(t)
    con.commit()
    return deep


def snapshot(con):
    out = {}
    for t in tables(con):
        if t in ("alembic_version", "redun_version"):
            continue
        c = cols(con, t)
        out[t] = (c, con.execute('select * from "%s"' % t).fetchall())
    return out


TIME_COLS = {"start_time", "end_time", "timestamp", "updated_time"}


def norm(col, v):
    if col in TIME_COLS and isinstance(v, str):
        # compare as instants (TZ=UTC): 'YYYY-MM-DD HH:MM:SS[.ffffff][+00:00]'
        s = v.replace("T", " ")
        for suf in ("+00:00", "Z"):
            if s.endswith(suf):
                s = s[: -len(suf)]
        if "." in s:
            s = s.rstrip("0").rstrip(".")
        return s
    return v


def run_case(ctx, rnd, vi, scratch, where):
    version = REDUN_DB_VERSIONS[vi]
    path = os.path.join(scratch, "v%d.db" % vi)
    if os.path.exists(path):
        os.unlink(path)
    b = RedunBackendDb(config=create_config_section({"db_uri": "sqlite:///" + path}))
    b.create_engine()
    b.migrate(desired_version=version)
    hist.close_backend(b)
    con = sqlite3.connect(path)
    con.execute("PRAGMA foreign_keys=ON")
    try:
        deep = populate(con, rnd, version)
    except sqlite3.IntegrityError as e:
        con.close()
        ctx.count("population_rejected")
        return
    before = snapshot(con)
    con.close()
    wit = {"version": "%d.%d" % (version.major, version.minor), "where": where}
    ctx.ev()
    ctx.count("start_version_%d_%d" % (version.major, version.minor))
    if deep:
        ctx.nontrivial(wit)
    b = RedunBackendDb(config=create_config_section({"db_uri": "sqlite:///" + path}))
    b.create_engine()
    try:
        b.migrate()
    except Exception as e:
        ctx.violation("migration-raised", "upgrade from %s raised %r" % (wit["version"], e), wit)
        hist.close_backend(b)
        return
    hist.close_backend(b)
    con = sqlite3.connect(path)
    after = snapshot(con)
    con.close()
    for t, (c0, rows0) in before.items():
        if t not in after:
            ctx.violation("table-dropped", "table %s no longer exists" % t, wit)
            continue
        c1, rows1 = after[t]
        shared = [c for c in c0 if c in c1]
        i0 = [c0.index(c) for c in shared]
        i1 = [c1.index(c) for c in shared]
        import collections
        new = collections.Counter(tuple(norm(c, r[i]) for c, i in zip(shared, i1)) for r in rows1)
        for r in rows0:
            key = tuple(norm(c, r[i]) for c, i in zip(shared, i0))
            ctx.count("rows_compared")
            if new[key] <= 0 and t == "job" and "execution_id" in shared and key[shared.index("execution_id")] is None:
                # job.execution_id was nullable in 2.3 and is backfilled from the job's root execution by 3.0
                k = shared.index("execution_id")
                cands = [cand for cand in new if new[cand] > 0 and cand[:k] + cand[k + 1:] == key[:k] + key[k + 1:] and cand[k] is not None]
                if cands:
                    new[cands[0]] -= 1
                    ctx.count("backfilled_execution_ids")
                    continue
            if new[key] <= 0:
                # which column changed?
                changed = "row-missing"
                pk = key[0]
                for cand in new:
                    if cand[0] == pk:
                        diff = [shared[k] for k in range(len(shared)) if cand[k] != key[k]]
                        changed = "column-changed:" + ",".join(diff)
                        break
                mech = changed
                if changed.startswith("column-changed") and set(changed.split(":")[1].split(",")) <= TIME_COLS and t == "job":
                    mech = "job-timestamps-lose-fractional-seconds-in-utc-migration"
                ctx.violation(mech, "table %s: row %r is not preserved by the upgrade from %s (%s)" % (t, key[:3], wit["version"], changed),
                              dict(wit, table=t))
                break
            new[key] -= 1
    # accepted by the library and usable for caching
    try:
        backend = engine.new_backend(db_uri="sqlite:///" + path)
    except Exception as e:
        ctx.violation("upgraded-database-not-loadable", "load() raised %r" % (e,), wit)
        return
    try:
        hist.reset()
        k1, o1, calls1, c1_ = hist.run(lambda: hist.T["top"](1, 2), backend)
        k2, o2, calls2, c2_ = hist.run(lambda: hist.T["top"](1, 2), backend)
        ctx.count("post_upgrade_runs", 2)
        if k1[0] != "v" or k2 != k1:
            ctx.violation("upgraded-database-not-usable", "runs after upgrade: %r then %r" % (k1, k2), wit)
        elif not calls1 or calls2:
            ctx.violation("upgraded-database-does-not-cache", "first run invoked %d tasks, second %d" % (len(calls1), len(calls2)), wit)
    finally:
        hist.close_backend(backend)


def shard(ctx, vi, pops, sub):
    rnd = random.Random("%s-%s-%s-c36" % (ctx.seed, vi, sub))
    scratch = tempfile.mkdtemp(prefix="verif_c36_")
    try:
        for p in range(pops):
            run_case(ctx, rnd, vi, scratch, {"seed": ctx.seed, "version_index": vi, "sub": sub, "population": p})
    finally:
        shutil.rmtree(scratch, ignore_errors=True)
    v = REDUN_DB_VERSIONS[vi]
    ctx.sample({"start_version": "%d.%d" % (v.major, v.minor), "populations": pops})


def main(ctx):
    pops = ctx.pick(2, 80)
    reps = ctx.pick(1, 2)
    ctx.shards("shard", [{"vi": vi, "pops": pops, "sub": r} for vi in range(len(REDUN_DB_VERSIONS) - 1) for r in range(reps)],
               timeout=ctx.pick(600, 3400))
    ctx.require("rows_compared", 1000)
    ctx.require("post_upgrade_runs", 10)
    for v in REDUN_DB_VERSIONS[:-1]:
        ctx.require("start_version_%d_%d" % (v.major, v.minor), 1)


def replay(ctx, witness):
    w = witness["where"]
    rnd = random.Random("%s-%s-%s-c36" % (w["seed"], w["version_index"], w["sub"]))
    scratch = tempfile.mkdtemp(prefix="verif_c36r_")
    from vlib.core import Ctx
    try:
        for p in range(w["population"] + 1):
            run_case(ctx if p == w["population"] else Ctx("C36", "quick", w["seed"]), rnd, w["version_index"], scratch, w)
    finally:
        shutil.rmtree(scratch, ignore_errors=True)
