"""C15 — cache keys separate every distinct call and only those.

Monitor: for generated task signatures and argument assignments the evaluation key (eval_hash) is
observed at SUBMIT on the real scheduler path (controlled executor; includes default merging) and
from hash_args_eval directly.  Oracle: an independent call-identity model
(inspect.signature.bind + apply_defaults, minus config parameters and JobInfo values) says which pairs
of calls must share a key and which must not.  A second monitor wraps redun.hashing.bencode during a
scheduler workload and checks that different record kinds never share a leading type tag.
"""
import collections
import inspect
import linecache
import random
import sys

from redun.scheduler import JobInfo
from redun.task import Task, get_task_registry, hash_args_eval
from redun.value import get_type_registry

from vlib import ctl, engine

PROPERTY = "C15"
LEVEL = "exploration"
RULE = ("generated signatures over positional / positional-only / defaulted / *args / keyword-only / **kwargs / JobInfo-defaulted "
        "parameters with config_args over any subset (incl. the variadic); per signature 4-10 base calls, each with "
        "must-equal variants (keyword order, config values, JobInfo placeholder, default passed by keyword) and "
        "must-differ variants (one bound non-config value changed, variadic element added/removed, task body).  "
        "Non-trivial = distinct (signature, base call, variant) triple.")
ASSUMPTIONS = ["positional-versus-keyword passing of the same value is not required to collide (not in the property)",
               "a **kwargs parameter is never declared a config argument"]

_n = [0]


def gen_sig(rnd):
    npos = rnd.randint(0, 3)
    ndef = rnd.randint(0, npos)
    pos = [("p%d" % i, i >= npos - ndef) for i in range(npos)]
    has_rest = rnd.random() < 0.5
    nkw = rnd.randint(0, 2) if has_rest or rnd.random() < 0.4 else 0
    kwonly = [("k%d" % i, rnd.random() < 0.6) for i in range(nkw)]
    has_extra = rnd.random() < 0.25
    info = rnd.choice([None, None, "pos", "kw"])
    names = [p for p, _ in pos] + (["rest"] if has_rest else []) + [k for k, _ in kwonly]
    cfg = sorted(rnd.sample(names, rnd.randint(0, min(2, len(names))))) if names and rnd.random() < 0.7 else []
    npo = rnd.randint(0, npos) if rnd.random() < 0.35 else 0
    return {"pos": pos, "rest": has_rest, "kwonly": kwonly, "extra": has_extra, "info": info, "config": cfg,
            "posonly": npo}


def render(sig, body="0"):
    parts = []
    for i, (p, d) in enumerate(sig["pos"]):
        parts.append("%s=%d" % (p, 100 + i) if d else p)
        if sig.get("posonly") and i + 1 == sig["posonly"]:
            parts.append("/")
    if sig["info"] == "pos":
        parts.append("info=JobInfo()")
    if sig["rest"]:
        parts.append("*rest")
    elif sig["kwonly"] or sig["info"] == "kw":
        parts.append("*")
    for i, (k, d) in enumerate(sig["kwonly"]):
        parts.append("%s=%d" % (k, 200 + i) if d else k)
    if sig["info"] == "kw":
        parts.append("info=JobInfo()")
    if sig["extra"]:
        parts.append("**extra")
    return "def f(%s):\n    return %s\n" % (", ".join(parts), body)


def make_task(sig, body="0"):
    _n[0] += 1
    src = render(sig, body)
    filename = "<c15-src-%d>" % _n[0]
    linecache.cache[filename] = (len(src), None, src.splitlines(True), filename)
    ns = {"JobInfo": JobInfo, "__name__": __name__}
    exec(compile(src, filename, "exec"), ns)
    t = Task(ns["f"], name="f%d" % _n[0], namespace="c15", task_options_base={"config_args": list(sig["config"])})
    get_task_registry().add(t)
    return t, ns["f"]


def gen_call(rnd, sig):
    pos = sig["pos"]
    required = sum(1 for _, d in pos if not d)
    npos = rnd.randint(required, len(pos)) if not (pos and rnd.random() < 0.3) else required
    npos = max(npos, sig.get("posonly", 0))   # positional-only parameters cannot be passed by keyword
    args = [rnd.randint(0, 9) for _ in range(npos)]
    kwargs = {}
    # positional params not covered positionally may be passed by keyword
    for p, d in pos[npos:]:
        if not d or rnd.random() < 0.4:
            kwargs[p] = rnd.randint(0, 9)
    if sig["rest"] and npos == len(pos) and sig["info"] != "pos" and rnd.random() < 0.7:
        args += [rnd.randint(10, 19) for _ in range(rnd.randint(1, 3))]
    for k, d in sig["kwonly"]:
        if not d or rnd.random() < 0.5:
            kwargs[k] = rnd.randint(20, 29)
    if sig["extra"] and rnd.random() < 0.7:
        for i in range(rnd.randint(1, 2)):
            kwargs["z%d" % i] = rnd.randint(30, 39)
    if sig["info"] and rnd.random() < 0.3:
        kwargs["info"] = JobInfo(job_id="placeholder")
    items = list(kwargs.items())
    rnd.shuffle(items)
    return args, dict(items)


def model(func, sig, args, kwargs):
    """Independent identity of a call: bound non-config, non-JobInfo values (with defaults applied)."""
    ba = inspect.signature(func).bind(*args, **kwargs)
    ba.apply_defaults()
    out = {}
    for name, v in ba.arguments.items():
        if name in sig["config"]:
            continue
        if isinstance(v, JobInfo):
            continue
        if isinstance(v, dict):
            # **kwargs: the order in which keywords were written is not part of the call's identity
            v = sorted((k, x) for k, x in v.items() if not isinstance(x, JobInfo))
        out[name] = repr(v)
    return tuple(sorted(out.items()))


def variants(rnd, func, sig, args, kwargs):
    """(kind, args, kwargs).  Equality expectation comes from model(), not from the kind."""
    out = []
    if len(kwargs) >= 2:
        items = list(kwargs.items())[::-1]
        out.append(("kw-order", list(args), dict(items)))
    # change each bound value in turn
    for i in range(len(args)):
        a2 = list(args)
        a2[i] = a2[i] + 50
        out.append(("positional-%d" % i, a2, dict(kwargs)))
    for k in kwargs:
        if isinstance(kwargs[k], JobInfo):
            out.append(("jobinfo-value", list(args), dict(kwargs, **{k: JobInfo(job_id="other", eval_hash="e")})))
            continue
        out.append(("keyword-" + k, list(args), dict(kwargs, **{k: kwargs[k] + 50})))
    if sig["rest"] and len(args) >= len(sig["pos"]) and sig["info"] != "pos":
        out.append(("variadic-added", list(args) + [77], dict(kwargs)))
        if len(args) > len(sig["pos"]):
            out.append(("variadic-removed", list(args)[:-1], dict(kwargs)))
    # pass a defaulted parameter by keyword with its default value
    params = inspect.signature(func).parameters
    ba = inspect.signature(func).bind(*args, **kwargs)
    for name, p in params.items():
        if p.default is not p.empty and name not in ba.arguments and not isinstance(p.default, JobInfo):
            out.append(("default-by-keyword-" + name, list(args), dict(kwargs, **{name: p.default})))
    if sig["info"] and "info" not in kwargs and sig["info"] == "kw":
        out.append(("jobinfo-explicit", list(args), dict(kwargs, info=JobInfo(job_id="x"))))
    return out


def observe_key(backend, t, args, kwargs):
    """eval_hash as computed on the real scheduler path, captured at SUBMIT."""
    out, c, s = engine.run_controlled(t(*args, **kwargs), ctl.ExtremeChooser("eager_fifo"), backend=backend, cache=False)
    if out[0] != "v" or not c.submits:
        return None, out
    return (c.submits[0]["eval_hash"], c.submits[0]["args_hash"]), out


def classify(sig, kind, args):
    """Mechanisms of the known positional/keyword-only misalignment when *args is present."""
    if sig["rest"] and (sig["kwonly"] or sig["info"] == "kw" or sig["extra"]):
        # positional values beyond the declared positional parameters are paired (zip / index) with the
        # names of the parameters declared *after* the variadic one
        return "variadic-values-aligned-with-keyword-only-parameter-names"
    return "unclassified"


def run_sig(ctx, rnd, backend, sig, where):
    try:
        t, func = make_task(sig)
    except Exception as e:
        ctx.count("signature_rejected")
        return backend
    reg = get_type_registry()
    ctx.ev()
    for ci in range(rnd.randint(4, 10)):
        args, kwargs = gen_call(rnd, sig)
        try:
            m0 = model(func, sig, args, kwargs)
        except TypeError:
            ctx.count("call_not_bindable")
            continue
        k0, out0 = observe_key(backend, t, args, kwargs)
        if k0 is None:
            if out0[0] == "e" and engine.is_db_failure(out0[1]):
                backend = engine.new_backend()
            ctx.violation("unclassified", "base call did not run: %r" % (engine.outcome_key(out0),),
                          {"sig": sig, "args": args, "kwargs": repr(kwargs), "where": where})
            continue
        d0 = hash_args_eval(reg, t, tuple(args), {**kwargs})
        ctx.count("scheduler_path_keys")
        for kind, a2, kw2 in variants(rnd, func, sig, args, kwargs):
            try:
                m1 = model(func, sig, a2, kw2)
            except TypeError:
                continue
            k1, out1 = observe_key(backend, t, a2, kw2)
            if k1 is None:
                continue
            same_expected = (m0 == m1)
            ctx.count("pairs_compared")
            ctx.count("pairs_must_equal" if same_expected else "pairs_must_differ")
            ctx.count("variant_" + kind.split("-")[0])
            ctx.nontrivial([sig, args, sorted(map(repr, kwargs.items())), kind])
            if same_expected and k0[0] != k1[0]:
                ctx.violation(classify(sig, kind, args), "%s: same call identity, different evaluation keys" % kind,
                              {"sig": sig, "source": render(sig), "args": args, "kwargs": repr(kwargs), "kind": kind,
                               "args2": a2, "kwargs2": repr(kw2), "where": where})
            if not same_expected and k0[0] == k1[0]:
                ctx.violation(classify(sig, kind, args), "%s: different call identity, same evaluation key" % kind,
                              {"sig": sig, "source": render(sig), "args": args, "kwargs": repr(kwargs), "kind": kind,
                               "args2": a2, "kwargs2": repr(kw2), "where": where})
        # a different task hash must give a different key for the same arguments
        t2, _ = make_task(sig, body="1")
        k2, _ = observe_key(backend, t2, args, kwargs)
        if k2 is not None:
            ctx.count("pairs_compared")
            ctx.count("variant_taskhash")
            if k2[0] == k0[0]:
                ctx.violation("unclassified", "different task hash, same evaluation key",
                              {"sig": sig, "args": args, "kwargs": repr(kwargs), "where": where})
            if k2[1] != k0[1]:
                ctx.violation("unclassified", "args_hash depends on the task body",
                              {"sig": sig, "args": args, "kwargs": repr(kwargs), "where": where})
    return backend


def shard(ctx, n, sub):
    rnd = random.Random("%s-%s-c15" % (ctx.seed, sub))
    backend = engine.new_backend()
    for i in range(n):
        sig = gen_sig(rnd)
        backend = run_sig(ctx, rnd, backend, sig, {"seed": ctx.seed, "sub": sub, "i": i})
        if i < 2:
            ctx.sample({"signature": render(sig).split("\n")[0], "config_args": sig["config"]})


# ---- type tag monitor ---------------------------------------------------------------------------
def shard_tags(ctx, n):
    import redun.hashing as H
    from vlib import wf
    seen = collections.defaultdict(set)   # tag -> kinds (caller qualnames)
    untagged = collections.Counter()
    orig = H.bencode

    def spy(struct, *a, **k):
        f = sys._getframe(1)
        if f.f_code.co_name in ("hash_struct", "hash_tag_bytes"):
            caller = sys._getframe(2)
            kind = caller.f_code.co_qualname if hasattr(caller.f_code, "co_qualname") else caller.f_code.co_name
            kind = kind.split(".<locals>")[0]
            if isinstance(struct, list) and struct and isinstance(struct[0], str):
                seen[struct[0]].add(kind)
            else:
                untagged[kind] += 1
            ctx.count("preimages_observed")
        return orig(struct, *a, **k)
    H.bencode = spy
    try:
        rnd = random.Random("%s-c15-tags" % ctx.seed)
        backend = engine.new_backend()
        import tempfile
        import os
        from redun import File
        from redun.file import Dir
        d = tempfile.mkdtemp(prefix="verif_c15_")
        try:
            for i in range(n):
                g = wf.Gen(rnd, max_depth=3)
                ast = g.program()
                engine.run_controlled(wf.build(ast), ctl.RandomChooser(i), backend=backend, cache=bool(i % 2))
            p = os.path.join(d, "a.txt")
            with open(p, "w") as f:
                f.write("x")
            from vlib import wf_tasks
            for v in [File(p), Dir(d), [File(p)]]:
                engine.run_controlled(wf_tasks.TASKS["ident"](v), ctl.ExtremeChooser("eager_fifo"), backend=backend)
        finally:
            import shutil
            shutil.rmtree(d, ignore_errors=True)
    finally:
        H.bencode = orig
    # two call sites write the same record kind when their classes are related by inheritance
    # (e.g. Value.get_hash and ProxyValue.get_hash both write a serialized-bytes value hash)
    import redun.expression, redun.file, redun.handle, redun.scheduler, redun.task, redun.value  # noqa: E401
    mods = [redun.value, redun.file, redun.task, redun.expression, redun.handle, redun.scheduler]

    def cls_of(kind):
        name = kind.split(".")[0]
        for m in mods:
            c = getattr(m, name, None)
            if isinstance(c, type):
                return c
        return None

    def same_kind(a, b):
        if a.split(".")[0] == b.split(".")[0]:
            return True
        ca, cb = cls_of(a), cls_of(b)
        return bool(ca and cb and (issubclass(ca, cb) or issubclass(cb, ca)))
    for tag, kinds in seen.items():
        ctx.count("tags_observed")
        ks = sorted(kinds)
        for i in range(len(ks)):
            for j in range(i + 1, len(ks)):
                if not same_kind(ks[i], ks[j]):
                    ctx.violation("type-tag-shared", "tag %r used by different record kinds %r and %r" % (tag, ks[i], ks[j]),
                                  {"tag": tag, "kinds": ks})
    ctx.extra["type_tags"] = {t: sorted(k) for t, k in seen.items()}
    ctx.extra["untagged_helper_preimages"] = dict(untagged)


def main(ctx):
    n = ctx.pick(14, 500)
    ctx.shards("shard", [{"n": n, "sub": s} for s in range(15)], timeout=3000)
    ctx.shards("shard_tags", [{"n": ctx.pick(20, 300)}], timeout=1200)
    ctx.require("pairs_must_equal", 200)
    ctx.require("pairs_must_differ", 1000)
    ctx.require("tags_observed", 8)


def replay(ctx, witness):
    rnd = random.Random(0)
    print(render(witness["sig"]), "config_args =", witness["sig"]["config"])
    print("call:", witness.get("args"), witness.get("kwargs"), " variant:", witness.get("kind"), witness.get("args2"), witness.get("kwargs2"))
    backend = engine.new_backend()
    w = witness["where"]
    r = random.Random("%s-%s-c15" % (w["seed"], w["sub"]))
    for i in range(w["i"] + 1):
        sig = gen_sig(r)
        if i == w["i"]:
            run_sig(ctx, r, backend, sig, w)
        else:
            # keep the generator stream aligned with the shard's: run the signature silently
            from vlib.core import Ctx
            run_sig(Ctx("C15", "quick", w["seed"]), r, backend, sig, w)
