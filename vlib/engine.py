"""Helpers shared by the scheduler-level checks: backends, controlled and real-pool runs."""
import logging
import os
import random

logging.disable(logging.CRITICAL)

from redun import Scheduler  # noqa: E402
from redun.config import Config  # noqa: E402

from vlib import ctl, wf  # noqa: E402


def make_config(limits=None, db_uri=None, context=None, extra=None):
    d = {}
    if limits:
        d["limits"] = {k: str(v) for k, v in limits.items()}
    if db_uri:
        d["backend"] = {"db_uri": db_uri}
    if context is not None:
        import json
        d.setdefault("scheduler", {})["context"] = json.dumps(context).replace("$", "$$")
    if extra:
        for k, v in extra.items():
            d.setdefault(k, {}).update(v)
    return Config(config_dict=d) if d else Config()


def new_backend(db_uri=None):
    s = Scheduler(config=make_config(db_uri=db_uri), job_status_interval=None)
    s.load()
    return s.backend


def outcome_key(out):
    if out[0] == "v":
        return ("v", repr(wf.canon(out[1])))
    if out[0] == "e":
        return ("e", type(out[1]).__name__, str(out[1]))
    return (out[0], repr(out[1]))


def run_controlled(expr, chooser, backend=None, limits=None, context=None, cache=True, dryrun=False,
                   run_context=None, max_steps=20000):
    """One controlled execution with a fresh Scheduler (optionally on a shared backend)."""
    c = ctl.Controller(chooser, max_steps=max_steps)
    s = Scheduler(config=make_config(limits=limits, context=context), backend=backend, job_status_interval=None)
    if backend is None:
        s.load()
    c.attach(s)
    kw = {"cache": cache, "dryrun": dryrun}
    if run_context:
        kw["context"] = run_context
    out = c.run(s, expr, **kw)
    return out, c, s


def choosers(rnd, k):
    """k choosers: the four extremes first, then random / PCT mixes."""
    out = [("eager_fifo", ctl.ExtremeChooser("eager_fifo")), ("starve_fifo", ctl.ExtremeChooser("starve_fifo")),
           ("starve_lifo", ctl.ExtremeChooser("starve_lifo")), ("eager_lifo", ctl.ExtremeChooser("eager_lifo"))]
    rnd.shuffle(out)
    out = out[:k]
    while len(out) < k:
        s = rnd.randrange(1 << 30)
        if rnd.random() < 0.5:
            out.append(("random:%d" % s, ctl.RandomChooser(s, p=rnd.choice([0.15, 0.35, 0.7]))))
        else:
            out.append(("pct:%d" % s, ctl.PCTChooser(s)))
    return out


def chooser_from_name(name):
    if name.startswith("random:"):
        return ctl.RandomChooser(int(name.split(":")[1]))
    if name.startswith("pct:"):
        return ctl.PCTChooser(int(name.split(":")[1]))
    if name.startswith("replay:"):
        import json
        return ctl.ReplayChooser(json.loads(name[7:]))
    return ctl.ExtremeChooser(name)


_preloaded = False


def real_scheduler(backend=None, start_method="forkserver", limits=None, context=None):
    """Unmodified LocalExecutors (thread + process pools)."""
    global _preloaded
    if not _preloaded:
        import multiprocessing
        try:
            multiprocessing.set_forkserver_preload(["redun", "vlib.wf_tasks"])
        except Exception:
            pass
        _preloaded = True
    cfg = make_config(limits=limits, context=context,
                      extra={"executors.default": {"type": "local", "mode": "thread", "max_workers": "8"},
                             "executors.process": {"type": "local", "mode": "process", "max_workers": "3",
                                                   "start_method": start_method}})
    s = Scheduler(config=cfg, backend=backend, job_status_interval=None)
    if backend is None:
        s.load()
    return s


def is_db_failure(exc):
    import sqlalchemy.exc
    return isinstance(exc, sqlalchemy.exc.SQLAlchemyError)
