"""Check runner: shards, counters, three-valued verdicts, evidence, known findings."""
import collections
import hashlib
import importlib
import json
import os
import shutil
import subprocess
import sys
import tempfile
import time
import traceback

from vlib import ROOT

# Runs against a scratch tree (VERIF_REPO, seeded changes) write their evidence and replays elsewhere, so that
# /verif/evidence only ever holds what was observed on /repo itself.
OUT_ROOT = os.environ.get("VERIF_OUT_DIR") or ROOT

PY = "/venv/bin/python"
NCPU = min(16, os.cpu_count() or 4)


def jdump(obj):
    return json.dumps(obj, sort_keys=True, default=repr, ensure_ascii=True)


def short_hash(obj):
    if not isinstance(obj, (bytes, str)):
        obj = jdump(obj)
    if isinstance(obj, str):
        obj = obj.encode("utf-8", "surrogatepass")
    return hashlib.sha1(obj).hexdigest()[:16]


class Ctx:
    """Collects what the monitors observed.  One per process; shard contexts are merged."""

    MAX_VIOLATIONS_KEPT = 200

    def __init__(self, prop, tier, seed):
        self.prop = prop
        self.tier = tier
        self.seed = seed
        self.evaluations = 0
        self.counters = collections.Counter()
        self.distinct = set()
        self.samples = []
        self.violations = []  # dicts: mechanism, message, witness
        self.viol_by_mech = collections.Counter()
        self.inconclusive = []
        self.requirements = []  # (counter, minimum)
        self.extra = {}
        self.exhaustive = None
        self.t0 = time.time()

    # -- recording ---------------------------------------------------------------------
    def ev(self, n=1):
        self.evaluations += n

    def count(self, name, n=1):
        self.counters[name] += n

    def nontrivial(self, key):
        """Register a distinct non-trivial case (by the check's stated rule)."""
        self.distinct.add(short_hash(key))

    def sample(self, case, limit=4):
        if len(self.samples) < limit:
            self.samples.append(case)

    def violation(self, mechanism, message, witness):
        """mechanism: the check's own classification of *why* the oracle failed; it is what
        known_findings.json is keyed by.  'unclassified' is never a known finding."""
        self.viol_by_mech[mechanism] += 1
        kept = sum(1 for v in self.violations if v["mechanism"] == mechanism)
        if kept < 5 and len(self.violations) < self.MAX_VIOLATIONS_KEPT:
            self.violations.append(
                {"mechanism": mechanism, "message": message, "witness": witness}
            )

    def mark_inconclusive(self, reason):
        self.inconclusive.append(reason)

    def require(self, counter, minimum=1):
        """The run is inconclusive unless the named monitor counter reached `minimum`."""
        self.requirements.append((counter, minimum))

    def is_quick(self):
        return self.tier == "quick"

    def pick(self, quick, thorough):
        return quick if self.tier == "quick" else thorough

    # -- shards ------------------------------------------------------------------------
    def dump(self):
        return {
            "evaluations": self.evaluations,
            "counters": dict(self.counters),
            "distinct": sorted(self.distinct),
            "samples": self.samples,
            "violations": self.violations,
            "viol_by_mech": dict(self.viol_by_mech),
            "inconclusive": self.inconclusive,
            "extra": self.extra,
        }

    def merge(self, d):
        self.evaluations += d["evaluations"]
        self.counters.update(d["counters"])
        self.distinct.update(d["distinct"])
        for s in d["samples"]:
            self.sample(s)
        for v in d["violations"]:
            kept = sum(1 for w in self.violations if w["mechanism"] == v["mechanism"])
            if kept < 5 and len(self.violations) < self.MAX_VIOLATIONS_KEPT:
                self.violations.append(v)
        self.viol_by_mech.update(d["viol_by_mech"])
        self.inconclusive.extend(d["inconclusive"])
        for k, v in d.get("extra", {}).items():
            if isinstance(v, (int, float)) and isinstance(self.extra.get(k, 0), (int, float)):
                self.extra[k] = self.extra.get(k, 0) + v
            elif isinstance(v, list):
                self.extra.setdefault(k, [])
                for x in v:
                    if x not in self.extra[k] and len(self.extra[k]) < 200:
                        self.extra[k].append(x)
            elif isinstance(v, dict):
                self.extra.setdefault(k, {}).update(v)
            else:
                self.extra[k] = v

    def shards(self, func, arglist, timeout=900, env=None, max_par=None):
        """Run vlib.checks.<prop>.<func>(ctx, **args) for each args in arglist, each in its own
        subprocess (never multiprocessing.Pool), at most NCPU at a time; merge the results.
        A shard that times out or dies makes the run inconclusive, not violated."""
        scratch = tempfile.mkdtemp(prefix="verif_%s_" % self.prop)
        max_par = max_par or NCPU
        try:
            pending = list(enumerate(arglist))
            running = []
            while pending or running:
                while pending and len(running) < max_par:
                    i, args = pending.pop(0)
                    inp = os.path.join(scratch, "in%d.json" % i)
                    out = os.path.join(scratch, "out%d.json" % i)
                    with open(inp, "w") as f:
                        json.dump(
                            {"prop": self.prop, "tier": self.tier, "seed": self.seed,
                             "func": func, "args": args}, f)
                    e = dict(os.environ)
                    e.setdefault("PYTHONHASHSEED", "0")
                    e["PYTHONPATH"] = ROOT + os.pathsep + e.get("PYTHONPATH", "")
                    if env:
                        e.update(env)
                    log = open(os.path.join(scratch, "log%d.txt" % i), "w")
                    p = subprocess.Popen(
                        [PY, "-m", "vlib.shard", inp, out], stdout=log, stderr=log, env=e,
                        cwd=scratch)
                    running.append((i, p, out, time.time(), log))
                time.sleep(0.02)
                still = []
                for (i, p, out, t0, log) in running:
                    rc = p.poll()
                    if rc is None:
                        if time.time() - t0 > timeout:
                            p.kill()
                            p.wait()
                            log.close()
                            self.mark_inconclusive("shard %s[%d] exceeded watchdog %ds" % (func, i, timeout))
                        else:
                            still.append((i, p, out, t0, log))
                        continue
                    log.close()
                    if rc == 0 and os.path.exists(out):
                        with open(out) as f:
                            self.merge(json.load(f))
                        self.count("shards_completed")
                    else:
                        tail = ""
                        try:
                            with open(os.path.join(scratch, "log%d.txt" % i)) as f:
                                tail = f.read()[-3000:]
                        except OSError:
                            pass
                        self.mark_inconclusive("shard %s[%d] died rc=%s: %s" % (func, i, rc, tail))
                running = still
        finally:
            shutil.rmtree(scratch, ignore_errors=True)


def load_known():
    path = os.path.join(ROOT, "known_findings.json")
    if not os.path.exists(path):
        return {"findings": [], "fixed": []}
    with open(path) as f:
        return json.load(f)


def split_chunks(n_total, n_chunks):
    """[(start, count)] covering range(n_total)."""
    n_chunks = max(1, min(n_chunks, n_total))
    base, rem = divmod(n_total, n_chunks)
    out, s = [], 0
    for i in range(n_chunks):
        c = base + (1 if i < rem else 0)
        out.append((s, c))
        s += c
    return out


def run_check(prop, tier, seed, replay=None):
    mod = importlib.import_module("vlib.checks.%s" % prop.lower())
    ctx = Ctx(prop, tier, seed)
    if replay:
        with open(replay) as f:
            rep = json.load(f)
        print("REPLAY %s mechanism=%s" % (prop, rep.get("mechanism")))
        print("message:", rep.get("message"))
        if hasattr(mod, "replay"):
            mod.replay(ctx, rep["witness"])
        else:
            print(json.dumps(rep["witness"], indent=1, default=repr)[:20000])
        for v in ctx.violations:
            print("reproduced: [%s] %s" % (v["mechanism"], v["message"]))
        return 1 if ctx.violations else 0

    crashed = None
    try:
        mod.main(ctx)
    except Exception:
        crashed = traceback.format_exc()
        ctx.mark_inconclusive("check crashed: " + crashed[-3000:])

    for name, minimum in ctx.requirements:
        if ctx.counters.get(name, 0) < minimum:
            ctx.mark_inconclusive(
                "deciding monitor counter %r = %d < %d (monitor not reached often enough)"
                % (name, ctx.counters.get(name, 0), minimum))

    known = load_known()
    open_mechs = {
        f["mechanism"]: f for f in known.get("findings", [])
        if f.get("property") == prop and f.get("status", "open") == "open"
    }
    rep_dir = os.path.join(OUT_ROOT, "replays", prop)
    new, matched = [], collections.OrderedDict()
    for v in ctx.violations:
        os.makedirs(rep_dir, exist_ok=True)
        path = os.path.join(rep_dir, "%s-%s.json" % (v["mechanism"].replace("/", "_")[:40],
                                                     short_hash(v["witness"])))
        with open(path, "w") as f:
            json.dump({"property": prop, "mechanism": v["mechanism"], "message": v["message"],
                       "witness": v["witness"], "tier": tier, "seed": seed}, f, indent=1,
                      default=repr)
        v["replay"] = path
        if v["mechanism"] in open_mechs:
            matched.setdefault(v["mechanism"], v)
        else:
            new.append(v)

    for mech, v in matched.items():
        print("KNOWN-FINDING: property=%s %s [%s; %d witnesses this run, e.g. %s]" % (
            prop, open_mechs[mech]["what"], mech, ctx.viol_by_mech[mech],
            os.path.relpath(v["replay"], ROOT)))
    seen_new = set()
    for v in new:
        if v["mechanism"] in seen_new:
            continue
        seen_new.add(v["mechanism"])
        print("VIOLATION property=%s replay=%s" % (prop, os.path.relpath(v["replay"], ROOT)))
        print("  mechanism=%s count=%d: %s" % (v["mechanism"], ctx.viol_by_mech[v["mechanism"]],
                                                v["message"][:600]))

    n_new = sum(c for m, c in ctx.viol_by_mech.items() if m not in open_mechs)
    coverage = {
        "evaluations": ctx.evaluations,
        "distinct_nontrivial": len(ctx.distinct),
        "rule": getattr(mod, "RULE", ""),
        "samples": ctx.samples[:5],
        "monitor_counters": dict(sorted(ctx.counters.items())),
        "known_findings_matched": {m: ctx.viol_by_mech[m] for m in matched},
        "new_violation_mechanisms": {m: c for m, c in ctx.viol_by_mech.items()
                                     if m not in open_mechs},
        "verdict": ("violated" if n_new else "inconclusive" if ctx.inconclusive
                    else "held on what was observed"),
        "inconclusive_reasons": ctx.inconclusive[:10],
    }
    if ctx.exhaustive is not None:
        coverage["exhaustive"] = bool(ctx.exhaustive)
    coverage.update(ctx.extra)
    evidence = {
        "property_id": prop,
        "tier": tier,
        "seed": seed,
        "level": getattr(mod, "LEVEL", "exploration"),
        "coverage": coverage,
        "assumptions": getattr(mod, "ASSUMPTIONS", []),
        "wall_s": round(time.time() - ctx.t0, 2),
        "violations": n_new,
    }
    os.makedirs(os.path.join(OUT_ROOT, "evidence"), exist_ok=True)
    names = ["%s.json" % prop]
    if tier == "thorough":
        # the evidence file is rewritten by every run; keep the last thorough run's record beside it
        names.append("%s.thorough.json" % prop)
    for name in names:
        with open(os.path.join(OUT_ROOT, "evidence", name), "w") as f:
            json.dump(evidence, f, indent=1, sort_keys=True, default=repr)
            f.write("\n")

    print("%s tier=%s seed=%d evaluations=%d distinct_nontrivial=%d wall=%.1fs verdict=%s" % (
        prop, tier, seed, ctx.evaluations, len(ctx.distinct), evidence["wall_s"],
        coverage["verdict"]))
    keys = sorted(ctx.counters)
    print("  monitors: " + ", ".join("%s=%d" % (k, ctx.counters[k]) for k in keys)[:1500])
    if n_new:
        return 1
    if ctx.inconclusive:
        for r in ctx.inconclusive[:5]:
            print("INCONCLUSIVE: " + r[:1500])
        return 2
    return 0


def run_json_procs(ctx, specs, timeout=600, max_par=None):
    """specs: list of (module, [args], env-overrides).  Each runs `python -m module args...` in its own
    subprocess and must print one JSON document on stdout.  Returns list of parsed documents (None on
    failure; failures make the run inconclusive)."""
    max_par = max_par or NCPU
    results = [None] * len(specs)
    pending = list(enumerate(specs))
    running = []
    while pending or running:
        while pending and len(running) < max_par:
            i, (module, args, env) = pending.pop(0)
            e = dict(os.environ)
            e["PYTHONPATH"] = ROOT + os.pathsep + e.get("PYTHONPATH", "")
            e.update(env or {})
            out = tempfile.TemporaryFile()
            err = tempfile.TemporaryFile()
            p = subprocess.Popen([PY, "-m", module] + [str(a) for a in args], stdout=out, stderr=err, env=e)
            running.append((i, p, out, err, time.time()))
        time.sleep(0.02)
        still = []
        for (i, p, out, err, t0) in running:
            rc = p.poll()
            if rc is None:
                if time.time() - t0 > timeout:
                    p.kill()
                    p.wait()
                    ctx.mark_inconclusive("subprocess %d exceeded watchdog" % i)
                else:
                    still.append((i, p, out, err, t0))
                continue
            out.seek(0)
            data = out.read()
            if rc == 0:
                try:
                    results[i] = json.loads(data)
                except ValueError:
                    ctx.mark_inconclusive("subprocess %d printed no JSON: %r" % (i, data[-500:]))
            else:
                err.seek(0)
                ctx.mark_inconclusive("subprocess %d died rc=%s: %s" % (i, rc, err.read()[-2000:].decode("utf-8", "replace")))
            out.close()
            err.close()
        running = still
    return results
