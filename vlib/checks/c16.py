"""C16 — value hashes depend only on the value.

Monitor: the same generated value (rebuilt from the seed, never transported) is hashed by the real
TypeRegistry.get_hash in separate interpreter processes with PYTHONHASHSEED in {0,1,2,random}, and for
every set/frozenset in 3 insertion orders.  Oracle: all hashes of one value id are equal.
"""
import datetime
import json
import random
import sys

from vlib import core

PROPERTY = "C16"
LEVEL = "exploration"
RULE = ("seeded value specs: scalars (int, big int, float, bool, None, str, bytes), Enum, datetime, nested "
        "list/tuple/dict/NamedTuple/dataclass, sets and frozensets (homogeneous str/int/tuple elements) at top "
        "level and nested; each spec is materialised in 3 set-insertion orders in each of 4 processes. "
        "Non-trivial = distinct spec containing a container; distinctness on the spec JSON.")
ASSUMPTIONS = ["object sharing inside a value is identical in all processes (values are rebuilt by the same code)",
               "set elements are mutually comparable (homogeneous) so that sorting is defined"]

HASHSEEDS = ["0", "1", "2", "random"]


def gen_spec(rnd, depth, hashable=False, elem_kind=None):
    """Spec = JSON tree.  Sets are lists of element specs of one kind so that they can be sorted."""
    r = rnd.random()
    if elem_kind == "tuple":
        return ["tuple", [gen_spec(rnd, 0, True, "int"), gen_spec(rnd, 0, True, "str")]]
    if depth <= 0 or r < 0.3 or elem_kind in ("int", "str"):
        kind = elem_kind or rnd.choice(["int", "str", "str", "big", "float", "bool", "none", "bytes", "enum", "dt"])
        if kind == "int":
            return ["int", rnd.randint(-50, 50)]
        if kind == "str":
            return ["str", rnd.choice(["", "a", "b", "ab", "é", "key", "x" * 20]) + str(rnd.randint(0, 30))]
        if kind == "big":
            return ["int", rnd.choice([2 ** 70, -(2 ** 65), 10 ** 30])]
        if kind == "float":
            return ["float", rnd.choice([0.0, 1.5, -2.25, 1e100])]
        if kind == "bool":
            return ["bool", rnd.random() < 0.5]
        if kind == "none":
            return ["none"]
        if kind == "bytes":
            return ["bytes", rnd.choice(["", "ab", "ÿ"])]
        if kind == "enum":
            return ["enum", rnd.choice(["RED", "GREEN"])]
        return ["dt", rnd.randint(0, 10 ** 9)]
    kinds = ["tuple", "frozenset", "pair", "fpoint"] if hashable else \
        ["list", "tuple", "dict", "set", "set", "frozenset", "frozenset", "pair", "point", "fpoint"]
    k = rnd.choice(kinds)
    sub = lambda: gen_spec(rnd, depth - 1, hashable)  # noqa: E731
    if k in ("list", "tuple"):
        return [k, [sub() for _ in range(rnd.randint(0, 3))]]
    if k == "dict":
        return ["dict", [[gen_spec(rnd, 0, True, rnd.choice(["str", "int"])), sub()] for _ in range(rnd.randint(0, 3))]]
    if k in ("set", "frozenset"):
        ek = rnd.choice(["int", "str", "str", "tuple"])
        return [k, [gen_spec(rnd, 1, True, ek) for _ in range(rnd.randint(0, 5))]]
    if k == "pair":
        return ["pair", [sub(), sub()]]
    return [k, [sub(), sub()]]


def build(spec, order):
    from vlib import c16_types as T
    k = spec[0]
    if k in ("int", "str", "float", "bool"):
        return spec[1]
    if k == "none":
        return None
    if k == "bytes":
        return spec[1].encode("latin-1")
    if k == "enum":
        return T.Color[spec[1]]
    if k == "dt":
        return datetime.datetime(2020, 1, 1) + datetime.timedelta(seconds=spec[1])
    items = spec[1]
    if k == "dict":
        return {build(a, order): build(b, order) for a, b in items}
    vals = [build(s, order) for s in items]
    if k == "list":
        return vals
    if k == "tuple":
        return tuple(vals)
    if k in ("set", "frozenset"):
        if order == 1:
            vals = vals[::-1]
        elif order == 2 and vals:
            h = len(vals) // 2
            vals = vals[h:] + vals[:h]
        out = set()
        for v in vals:
            out.add(v)
        return out if k == "set" else frozenset(out)
    if k == "pair":
        return T.Pair(*vals)
    if k == "point":
        return T.Point(*vals)
    return T.FrozenPoint(*vals)


def spec_has(spec, pred, top=True):
    if pred(spec, top):
        return True
    if spec[0] in ("list", "tuple", "set", "frozenset", "pair", "point", "fpoint"):
        return any(spec_has(s, pred, False) for s in spec[1])
    if spec[0] == "dict":
        return any(spec_has(a, pred, False) or spec_has(b, pred, False) for a, b in spec[1])
    return False


def classify(spec):
    """Only a *top-level builtins.set whose elements contain no sets* is canonicalised by redun; any other
    unordered collection in the value is the known mechanism."""
    if spec_has(spec, lambda s, top: s[0] == "frozenset" or (s[0] == "set" and not top)):
        return "unordered-collection-not-canonicalised-when-nested-or-frozenset"
    return "unclassified"


def specs_for(seed, sub, n):
    rnd = random.Random("%s-%s-c16" % (seed, sub))
    return [gen_spec(rnd, rnd.randint(0, 4)) for _ in range(n)]


def worker(seed, sub, n):
    from redun.value import get_type_registry
    reg = get_type_registry()
    out = []
    backend = None
    for j, spec in enumerate(specs_for(seed, sub, n)):
        hs = []
        for order in range(3):
            try:
                hs.append(reg.get_hash(build(spec, order)))
            except Exception as e:
                hs.append("raised:%s" % type(e).__name__)
        # the hash under which the backend records the value (record_value passes the serialisation along)
        if j % 3 == 0 or spec[0] in ("set", "frozenset"):
            if backend is None:
                from vlib import engine
                backend = engine.new_backend()
            for order in range(3):
                try:
                    hs.append(backend.record_value(build(spec, order)))
                except Exception as e:
                    backend.session.rollback()
                    hs.append(hs[order] if hs[order].startswith("raised") else "record-raised:%s" % type(e).__name__)
        out.append(hs)
    json.dump(out, sys.stdout)


def main(ctx):
    n = ctx.pick(400, 12000)
    subs = ctx.pick(4, 8)
    procs = []
    for sub in range(subs):
        for hs in HASHSEEDS:
            procs.append(("vlib.checks.c16", ["worker", ctx.seed, sub, n], {"PYTHONHASHSEED": hs}))
    res = core.run_json_procs(ctx, procs)
    ctx.count("processes", sum(1 for r in res if r is not None))
    i = 0
    for sub in range(subs):
        group = res[i:i + len(HASHSEEDS)]
        i += len(HASHSEEDS)
        if any(g is None for g in group):
            continue
        specs = specs_for(ctx.seed, sub, n)
        for j, spec in enumerate(specs):
            ctx.ev()
            allh = [h for g in group for h in g[j]]
            ctx.count("hashes_compared", len(allh))
            if any(len(g[j]) > 3 for g in group):
                ctx.count("recorded_hashes_compared", sum(len(g[j]) - 3 for g in group))
            has_set = spec_has(spec, lambda s, top: s[0] in ("set", "frozenset"))
            if has_set:
                ctx.count("values_with_sets")
            if spec_has(spec, lambda s, top: s[0] == "set" and top):
                ctx.count("values_with_toplevel_set")
            if spec[0] not in ("int", "str", "float", "bool", "none", "bytes", "enum", "dt"):
                ctx.nontrivial(spec)
            if len(set(allh)) != 1:
                per_seed = [len(set(g[j])) == 1 for g in group]
                across = len({tuple(g[j]) for g in group}) != 1
                ctx.violation(classify(spec), "hashes differ (insertion-order-stable per process: %r, differs across "
                              "hash seeds: %r): %r" % (per_seed, across, sorted(set(allh))[:4]),
                              {"spec": spec, "seed": ctx.seed, "sub": sub, "index": j})
            if any(h.startswith("raised") for h in allh):
                ctx.count("hash_raised")
            if j < 2 and sub == 0:
                ctx.sample({"spec": spec, "hash": allh[0]})
    ctx.require("hashes_compared", 10000)
    ctx.require("values_with_toplevel_set", 20)
    ctx.require("recorded_hashes_compared", 1000)
    ctx.require("processes", len(procs))


def replay(ctx, witness):
    spec = witness["spec"]
    procs = [("vlib.checks.c16", ["one", json.dumps(spec)], {"PYTHONHASHSEED": hs}) for hs in HASHSEEDS]
    res = core.run_json_procs(ctx, procs)
    print(json.dumps(spec))
    for hs, r in zip(HASHSEEDS, res):
        print("PYTHONHASHSEED=%s orders -> %s" % (hs, r))
    if len({h for r in res for h in r}) != 1:
        ctx.violation(classify(spec), "hashes differ", witness)


if __name__ == "__main__":
    if sys.argv[1] == "worker":
        worker(int(sys.argv[2]), int(sys.argv[3]), int(sys.argv[4]))
    elif sys.argv[1] == "one":
        from redun.value import get_type_registry
        spec = json.loads(sys.argv[2])
        json.dump([get_type_registry().get_hash(build(spec, o)) for o in range(3)], sys.stdout)
