"""C37 — the task registry stays consistent.

Invariant at a hook: TaskRegistry.add / rename are wrapped from the harness and the structural
invariant (set of current hashes == hashes of held tasks, counts >= 1, every task found under its
current full name) is asserted after each call; a model-based driver runs define / redefine / wrap
sequences (real @task and wraps_task) on a private registry swapped in for the global one and checks
the naming rule for wrapped tasks.
"""
import itertools
import random

import importlib

rt = importlib.import_module("redun.task")
from redun.task import TaskRegistry, task, wraps_task

PROPERTY = "C37"
LEVEL = "exploration"
RULE = ("all sequences up to a length bound (then seeded random to length 12) over ops define(name in 3, body in 3, "
        "versioned or not) and wrap(name) with 2 wrapper names; invariant evaluated after every registry mutation.  "
        "Non-trivial = distinct sequence containing a redefinition or a wrap.")
ASSUMPTIONS = ["the invariant is stated on the hashes stored on the held Task objects (a renamed inner task keeps the "
               "hash it was registered with; that is recorded as an observation, not required to change)"]

NAMES = ["a", "b", "c"]
BODIES = ["return x + 1", "return x + 2", "return x"]
WRAPPERS = ["_w1", "_w2"]


class InvariantBroken(Exception):
    pass


STATS = {"evaluations": 0}


def invariant(reg):
    STATS["evaluations"] += 1
    held = list(reg._tasks.values())
    hashes = {t.hash for t in held}
    try:
        th = reg.task_hashes
    except AssertionError as e:
        raise InvariantBroken("task_hashes assertion: %s" % e)
    if th != hashes:
        raise InvariantBroken("task_hashes %d entries != hashes of held tasks %d (missing %r, stale %r)" % (
            len(th), len(hashes), sorted(hashes - th)[:2], sorted(th - hashes)[:2]))
    if any(c < 1 for c in reg._task_hash_counts.values()):
        raise InvariantBroken("non-positive hash count")
    import collections
    cnt = collections.Counter(t.hash for t in held)
    if dict(reg._task_hash_counts) != dict(cnt):
        raise InvariantBroken("hash counts differ from the number of held tasks per hash")
    for t in held:
        if reg.get(t.fullname) is not t:
            raise InvariantBroken("task %s not found under its full name" % t.fullname)
    for name, t in reg._tasks.items():
        if name != t.fullname:
            raise InvariantBroken("key %r holds task named %r" % (name, t.fullname))


_hooked = False


def install_hooks():
    global _hooked
    if _hooked:
        return
    _hooked = True
    for meth in ("add", "rename"):
        orig = getattr(TaskRegistry, meth)

        def wrapper(self, *a, _orig=orig, **k):
            r = _orig(self, *a, **k)
            invariant(self)
            return r
        setattr(TaskRegistry, meth, wrapper)


def make_func(body):
    ns = {}
    exec("def f(x):\n    %s\n" % body, ns)
    return ns["f"]


def run_seq(ctx, seq, where=None):
    """seq: list of ("def", name, body_idx, versioned) | ("wrap", name, wrapper_idx)"""
    install_hooks()
    saved = rt._task_registry
    reg = TaskRegistry()
    rt._task_registry = reg
    ns = "c37"
    # model: visible fullname -> chain of hidden fullnames (innermost last), body of innermost
    model = {}
    interesting = False
    try:
        for op in seq:
            if op[0] == "def":
                _, name, bi, versioned = op
                full = "%s.%s" % (ns, name)
                if full in model:
                    interesting = True
                t = task(name=name, namespace=ns, version="v%d" % bi if versioned else None,
                         source="def f(x):\n    %s\n" % BODIES[bi])(make_func(BODIES[bi]))
                model[full] = {"chain": [], "body": bi, "obj": t}
                if reg.get(full) is not t:
                    ctx.violation("define-not-registered", "defined task not found under its name", {"seq": seq})
            else:
                _, name, wi = op
                full = "%s.%s" % (ns, name)
                if full not in model:
                    continue
                interesting = True
                wname = WRAPPERS[wi]

                @wraps_task(wrapper_name=wname)
                def _wrapper(inner):
                    def run(*a, **k):
                        return inner.func(*a, **k)
                    return run
                old = model[full]
                old_chain = [full] + old["chain"]
                objs = [reg.get(n) for n in old_chain]
                wrapped = _wrapper(old["obj"])
                # expected new names: every task of the old chain moves one namespace level down
                new_chain = []
                for n in old_chain:
                    nsp, nm = n.rsplit(".", 1)
                    new_chain.append("%s.%s.%s" % (nsp, wname, nm))
                if wrapped.fullname != full:
                    ctx.violation("wrapped-task-lost-visible-name", "wrapper is named %s, expected %s" % (wrapped.fullname, full),
                                  {"seq": seq})
                if reg.get(full) is not wrapped:
                    ctx.violation("wrapped-task-not-registered", "visible name does not resolve to the wrapper", {"seq": seq})
                for n, o in zip(new_chain, objs):
                    if o is None:
                        continue
                    if reg.get(n) is not o:
                        ctx.violation("original-not-in-inner-namespace", "expected original under %s; registry has %r" % (
                            n, sorted(reg._tasks)), {"seq": seq})
                if wrapped.get_task_option("wrapped_task") != new_chain[0]:
                    ctx.violation("wrapper-points-elsewhere", "wrapped_task option %r != %r" % (
                        wrapped.get_task_option("wrapped_task"), new_chain[0]), {"seq": seq})
                if wrapped.inner_task is not objs[-1] and objs[-1] is not None:
                    ctx.violation("inner-task-chain-broken", "inner_task does not reach the innermost original", {"seq": seq})
                model[full] = {"chain": new_chain, "body": old["body"], "obj": wrapped}
                ctx.count("wraps")
            ctx.count("ops")
        invariant(reg)
    except InvariantBroken as e:
        ctx.violation("registry-invariant", str(e), {"seq": seq})
    except AssertionError as e:
        ctx.violation("registry-assertion", "assertion inside registry: %r" % (e,), {"seq": seq})
    finally:
        rt._task_registry = saved
    ctx.ev()
    if interesting:
        ctx.nontrivial(seq)


def alphabet():
    ops = []
    for n in NAMES:
        for b in range(len(BODIES)):
            ops.append(("def", n, b, False))
        ops.append(("def", n, 0, True))
        for w in range(len(WRAPPERS)):
            ops.append(("wrap", n, w))
    return ops


def shard_exh(ctx, length, start, step):
    ops = alphabet()
    for i, seq in enumerate(itertools.product(ops, repeat=length)):
        if i % step == start:
            run_seq(ctx, [list(o) for o in seq])
    ctx.count("invariant_evaluations", STATS["evaluations"])


def shard_rand(ctx, n, sub):
    rnd = random.Random("%s-%s-c37" % (ctx.seed, sub))
    ops = alphabet()
    for i in range(n):
        seq = [list(rnd.choice(ops)) for _ in range(rnd.randint(4, 12))]
        run_seq(ctx, seq)
        if i < 2:
            ctx.sample({"seq": seq})
    ctx.count("invariant_evaluations", STATS["evaluations"])


def shard_global(ctx, n):
    """The same invariant, hooked on the *global* registry while scheduler workloads define and run tasks."""
    install_hooks()
    from vlib import ctl, engine, wf
    rnd = random.Random("%s-c37-global" % ctx.seed)
    backend = engine.new_backend()
    for i in range(n):
        g = wf.Gen(rnd, max_depth=3)
        engine.run_controlled(wf.build(g.program()), ctl.RandomChooser(i), backend=backend)
        try:
            invariant(rt.get_task_registry())
        except InvariantBroken as e:
            ctx.violation("registry-invariant", "global registry: %s" % e, {"i": i})
    ctx.count("invariant_evaluations", STATS["evaluations"])
    ctx.count("global_registry_checks", n)


def main(ctx):
    if ctx.is_quick():
        ctx.shards("shard_exh", [{"length": 1, "start": 0, "step": 1}, {"length": 2, "start": 0, "step": 1}] +
                   [{"length": 3, "start": s, "step": 6} for s in range(6)])
        ctx.shards("shard_rand", [{"n": 300, "sub": s} for s in range(7)])
        ctx.exhaustive = False
        ctx.extra["exhaustive_up_to_length"] = 3
    else:
        ctx.shards("shard_exh", [{"length": 1, "start": 0, "step": 1}, {"length": 2, "start": 0, "step": 1},
                                 {"length": 3, "start": 0, "step": 1}] +
                   [{"length": 4, "start": s, "step": 16} for s in range(16)] +
                   [{"length": 5, "start": s, "step": 64} for s in range(64)], timeout=3000)
        ctx.shards("shard_rand", [{"n": 6000, "sub": s} for s in range(16)])
        ctx.extra["exhaustive_up_to_length"] = 5
    ctx.shards("shard_global", [{"n": ctx.pick(20, 300)}])
    ctx.require("invariant_evaluations", 5000)
    ctx.require("wraps", 500)


def replay(ctx, witness):
    print(witness["seq"])
    run_seq(ctx, witness["seq"])
