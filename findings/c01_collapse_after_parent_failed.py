"""A job whose parent has already failed (and released its child jobs) becomes ready and finds an equal job in flight:
Job.collapse() raised ValueError('... is not in list') inside the event loop, so Scheduler.run() raised that instead of
finishing the workflow (here the failure of inner() is caught, the workflow result is well defined)."""
import sys
import time

from redun import Scheduler, task
from redun.scheduler import catch

redun_namespace = "c01_collapse"


@task()
def boom():
    raise KeyError("boom")


@task()
def ident(x):
    time.sleep(0.3)
    return x


@task()
def work(x):
    time.sleep(1.0)
    return x + 1


@task()
def inner():
    return [boom(), work(ident(1))]


@task()
def recover(err):
    return "recovered"


@task()
def main():
    return [catch(inner(), KeyError, recover), work(1)]


s = Scheduler()
s.load()
try:
    out = s.run(main())
except Exception as e:
    print("RAISED", type(e).__name__, e)
    sys.exit(1)
print(out)
sys.exit(0 if out == ["recovered", 2] else 1)
