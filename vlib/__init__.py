"""Runtime-monitoring harness for insitro/redun (see /verif/DESIGN.md)."""
import os
import sys

ROOT = os.path.dirname(os.path.dirname(os.path.abspath(__file__)))
_deps = os.path.join(ROOT, ".deps")
if os.path.isdir(_deps) and _deps not in sys.path:
    # appended (not prepended) so that /venv's own packages always win
    sys.path.append(_deps)
