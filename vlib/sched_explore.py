"""Shared schedule exploration for C06 (dedup), C08 (limits), C09 (termination) and C07 (timing
independence): generated programs with duplicates / limits / failures run under DFS-exhaustive (small)
or random+extreme (larger) completion orders; per-run monitors report to the calling check."""
import collections
import json
import random

from redun.task import CacheScope

from vlib import ctl, engine, wf
from vlib.core import short_hash

LIMIT_SAFE = {"leafcall", "inc2", "op", "rop", "cond", "catch", "partial", "seqidx", "sumlist", "rec", "dflt",
              "kwonly", "varargs", "lazy_cond", "lit", "cmp", "getitem", "getattr", "dictget", "fail", "fail_if",
              "fan", "map", "flat_map", "mklist", "seq", "catch_all", "twice", "mapmap", "cont", "containers",
              "thread", "calle", "apply_func", "as_task"}


def dup_program(rnd, depth=2):
    """Programs arranged so that duplicates of a call are created before / during / after the first."""
    g = wf.Gen(rnd, max_depth=depth, fan=2, err_budget=rnd.choice([0, 0, 1]), allow=LIMIT_SAFE)
    x = rnd.choice([1, 2, 3])
    base = rnd.choice([
        ["call", "inc", [["val", x]], {}, {}],
        ["call", "add", [["val", x], ["val", 1]], {}, {}],
        ["call", "inc2", [["val", x]], {}, {}],
        ["call", "fail", [["val", "VErr"], ["val", "dupboom"]], {}, {}],
        ["call", "fan", [["val", 2], ["val", x]], {}, {}],
    ])
    def cp():
        return json.loads(json.dumps(base))
    shape = rnd.choice(["siblings", "seq", "nested", "twice", "mixed", "map", "catch_all", "cousins", "generated",
                        "limited", "limited", "rejected", "optout"])
    if shape == "optout":
        # equal calls of which some opted out of result sharing (cache_scope=NONE): the regular ones must still be
        # handed to an executor at most once, whatever the opted-out twins do in between
        nm = rnd.choice(["inc", "neg", "ident"])
        reg = lambda: ["call", nm, [["val", x]], {}, {}]  # noqa: E731
        none = lambda: ["call", nm, [["val", x]], {}, {"options": {"cache_scope": "NONE"}}]  # noqa: E731
        late = lambda: ["call", nm, [["call", "ident", [["val", x]], {}, {}]], {}, {}]  # noqa: E731  (ready later)
        late2 = lambda: ["call", nm, [["call", "ident", [["call", "ident", [["val", x]], {}, {}]], {}, {}]], {}, {}]  # noqa: E731
        items = [reg(), none(), late()]
        if rnd.random() < 0.5:
            items.append(rnd.choice([none, late2])())
        if rnd.random() < 0.3:
            rnd.shuffle(items)
        return ["cont", "list", items], shape
    if shape == "rejected":
        # jobs that demand resources but are rejected before reaching an executor (unknown executor name), caught
        # so that the execution goes on and other jobs compete for the same resource afterwards
        lim = rnd.choice([["r1"], {"r1": 1}])
        bad = lambda v: ["catch", ["call", "inc", [["val", v]], {}, {"limits": lim, "executor": "no_such_executor"}],  # noqa: E731
                         [[["Exception"], "recov_const"]]]
        good = lambda v: ["call", rnd.choice(["inc", "neg", "ident"]), [["val", v]], {}, {"limits": lim}]  # noqa: E731
        first = [bad(x), bad(x + 1)][: rnd.randint(1, 2)]
        later = [good(x + i) for i in range(rnd.randint(2, 4))]
        if rnd.random() < 0.5:
            return ["seq", first + [["cont", "list", later]]], shape
        return ["cont", "list", first + later], shape
    if shape == "limited":
        # several jobs competing for one scarce resource, with true job-level duplicates (same call made from
        # beneath different parents, each with the same demand)
        lim = rnd.choice([["r1"], {"r1": 1}, ["r1", "r2"]])
        names = ["inc", "neg", "ident"]
        items = []
        for _ in range(rnd.randint(3, 5)):
            nm, xx = rnd.choice(names), rnd.choice([x, x, x + 1])
            if rnd.random() < 0.5:
                items.append(["call", nm, [["val", xx]], {}, {"limits": lim}])
            else:
                items.append(["call", "wrap_call", [["val", nm], ["val", xx], ["val", lim]], {}, {}])
        return ["cont", "list", items], shape
    if shape == "siblings":       # same parent, same expression hash
        return ["cont", "list", [cp(), cp(), ["call", "ident", [cp()], {}, {}]]], shape
    if shape == "seq":            # duplicate created after the first has completed
        return ["seq", [cp(), cp(), ["call", "ident", [cp()], {}, {}]]], shape
    if shape == "nested":         # duplicate inside another job (different parent)
        return ["cont", "list", [cp(), ["call", "ident", [cp()], {}, {}], ["call", "mklist", [cp(), cp()], {}, {}]]], shape
    if shape == "twice":
        return ["cont", "list", [["call", "twice_same", [["val", x]], {}, {}], ["call", "inc", [["val", x]], {}, {}]]], shape
    if shape == "mixed":
        return ["cont", "tuple", [["seq", [cp(), cp()]], cp(), ["call", "add", [cp(), cp()], {}, {}]
                                  if base[1] not in ("fan",) else cp()]], shape
    if shape == "map":
        return ["map", ["taskval", "inc"], ["cont", "list", [["val", x], ["val", x], ["call", "ident", [["val", x]], {}, {}]]]], shape
    if shape == "catch_all":
        return ["catch_all", ["cont", "list", [cp(), cp(), ["call", "inc", [["val", 5]], {}, {}]]], ["VErr"], "count_errs"], shape
    if shape == "cousins":        # the same call under two different template parents
        return ["cont", "list", [["call", "inc2", [["val", x]], {}, {}], ["call", "inc2", [["call", "ident", [["val", x]], {}, {}]], {}, {}],
                                 ["call", "inc", [["val", x]], {}, {}]]], shape
    return g.program(), shape


def assign_limits(ast, rnd, caps):
    """Give some call nodes a resource demand that never exceeds its cap (C09's premise)."""
    res = sorted(caps)
    def fn(c):
        r = rnd.random()
        if r < 0.55:
            names = rnd.sample(res, rnd.randint(1, len(res)))
            if rnd.random() < 0.5:
                c[4] = dict(c[4], limits=list(names))
            else:
                c[4] = dict(c[4], limits={nm: rnd.randint(1, caps[nm]) for nm in names})
        return c
    return wf.map_calls(ast, fn)


def gen_caps(rnd):
    caps = {"r1": rnd.choice([1, 1, 2, 3])}
    if rnd.random() < 0.6:
        caps["r2"] = rnd.choice([1, 2])
    # r3 is never configured: its cap is the default 1
    cfg = dict(caps)
    if rnd.random() < 0.4:
        caps["r3"] = 1
    return caps, cfg


def has_unjoined_fork(ast):
    return False  # generated programs only fork inside thread_roundtrip, which joins


# ---- per-run monitors ---------------------------------------------------------------------------
def dedup_key(sub):
    return (sub["task_hash"], sub["args_hash"], sub["context_hash"])


def opted_out(sub):
    o = sub["options"]
    cs = o.get("cache_scope", CacheScope.BACKEND)
    try:
        cs = CacheScope(cs)
    except Exception:
        pass
    return cs == CacheScope.NONE or o.get("prov", True) is False


def check_run(ctx, focus, ast, c, s, out, how, caps_cfg, stats):
    """Apply the monitors of `focus` ('C06','C08','C09') to one controlled run."""
    wit = {"ast": ast, "how": how, "limits": caps_cfg}
    if out[0] == "steplimit":
        ctx.mark_inconclusive("step limit")
        return
    if focus == "C09" or focus == "all":
        if out[0] == "deadlock":
            info = out[1] or {}
            mech = "jobs-pending-limits-never-renominated" if info.get("pending_limits") else "dead-quiescent-state"
            ctx.violation(mech, "queue empty, nothing in flight, workflow pending: %r" % (info,), wit)
        elif out[0] == "v":
            unsettled = [c.jobs[i]["task"] for i in c.job_order if "settled" not in c.jobs[i]]
            if unsettled:
                ctx.violation("job-not-settled-on-return", "run returned with unsettled jobs %r" % (unsettled,), wit)
            if s._jobs_pending_limits:
                ctx.violation("pending-limits-nonempty-on-return", "jobs still waiting for resources at return", wit)
            ctx.count("returns_all_settled_checked")
        if out[0] in ("v", "e"):
            ctx.count("terminated_runs")
    elif out[0] == "deadlock":
        ctx.count("deadlocks_seen_by_other_check")
        return
    if focus == "C08" or focus == "all":
        for v in c.limit_violations:
            ctx.violation("limit-exceeded", "resource %s: %d held > limit %d after submitting %s" % (
                v["resource"], v["held"], v["limit"], v["job"]), wit)
        for v in c.negative_limits:
            ctx.violation("limits-used-negative", "limits_used[%s]=%d" % (v["resource"], v["value"]), wit)
        if out[0] in ("v", "e"):
            left = {r: n for r, n in s.limits_used.items() if n != 0}
            # after a failed run other jobs may legitimately still be in flight (and hold units)
            inflight_hold = collections.Counter()
            for _, job, _ in c.inflight:
                for r, n in job.get_limits().items():
                    inflight_hold[r] += n
            # units of jobs whose completion event is still queued are also legitimately outstanding
            if out[0] == "v" and left:
                ctx.violation("units-not-returned", "limits_used after successful run: %r" % (left,), wit)
            elif out[0] == "e":
                for r, n in left.items():
                    if n < inflight_hold.get(r, 0):
                        ctx.violation("units-returned-twice", "limits_used[%s]=%d < still held %d" % (r, n, inflight_hold[r]), wit)
        ctx.count("submits_with_limits", sum(1 for sb in c.submits if sb["limits"]))
        stats["max_held"] = max(stats.get("max_held", 0), max([0] + list(c.held_max.values())))
    if focus == "C06" or focus == "all":
        groups = collections.defaultdict(list)
        for sb in c.submits:
            if not opted_out(sb):
                groups[dedup_key(sb)].append(sb)
        for key, subs in groups.items():
            if len(subs) > 1:
                ctx.violation("call-submitted-twice", "%s submitted %d times in one execution" % (subs[0]["task"], len(subs)), wit)
        # every job with the same key settles identically
        bykey = collections.defaultdict(list)
        for jid in c.job_order:
            info = c.jobs[jid]
            if "settled" in info and info.get("eval_hash"):
                bykey[(info["task_hash"], info["args_hash"], info["context_hash"])].append(info)
        for key, infos in bykey.items():
            outs = {i["settled"] for i in infos}
            if len(infos) > 1:
                ctx.count("duplicate_jobs_settled", len(infos) - 1)
                kinds = {("cached" if i["status_was_cached"] else "ran") for i in infos}
                if "cached" in kinds:
                    ctx.count("duplicates_served_without_submit")
            # "every duplicate receives the same result or error": a job that was served from its twin (collapsed onto
            # the in-flight call or answered from the execution's results) must settle like a twin that was not served.
            # Jobs that were each handled on their own (e.g. one rejected for its own unknown executor before any
            # twin existed) are not duplicates of each other; two submissions of one call are call-submitted-twice.
            served = [i for i in infos if i["status_was_cached"]]
            own = {i["settled"] for i in infos if not i["status_was_cached"]}
            for i in served:
                if own and i["settled"] not in own:
                    ctx.violation("duplicates-differ", "a duplicate settled as %r, its twin(s) as %r" % (i["settled"], sorted(own)), wit)
                    break
            if len({i["settled"] for i in served}) > 1:
                ctx.violation("duplicates-differ", "duplicates of one call settled differently: %r" % (sorted(outs),), wit)
        # one Job per (parent job object, expression hash)
        seen = collections.Counter()
        for jid in c.job_order:
            info = c.jobs[jid]
            seen[(info["parent_obj"], info["expr_hash"])] += 1
        for (p, eh), n in seen.items():
            if n > 1 and eh is not None:
                ctx.violation("expression-evaluated-twice-under-one-parent", "%d jobs for one expression" % n, wit)
        ctx.count("submits", len(c.submits))


def classify_twins(c):
    """How did duplicates meet their twin?  pending / finished (for the evidence counters)."""
    res = collections.Counter()
    first_report = {}
    for e_i, e in enumerate(c.events):
        if e[0] == "R":
            first_report.setdefault(e[1], e_i)
    return res


def explore_program(ctx, focus, ast, rnd, caps_cfg, n_random, dfs_budget, stats, backend_holder, cache=False):
    """Runs one program under many schedules.  Returns set of schedule signatures."""
    sigs = set()
    results = {}

    def one(ch, how):
        # cache=True is the scheduler's normal mode (per-call cache_scope honoured): every run then gets a fresh in-memory
        # backend, so that nothing is served from another schedule's execution
        out, c, s = engine.run_controlled(wf.build(ast), ch, backend=None if cache else backend_holder[0], limits=caps_cfg,
                                          cache=cache)
        if cache:
            ctx.count("schedules_run_in_normal_cache_mode")
            try:
                s.backend.session.close()
                s.backend.engine.dispose()
            except Exception:
                pass
        if out[0] == "e" and engine.is_db_failure(out[1]) and not cache:
            backend_holder[0] = engine.new_backend()
        sigs.add(c.signature())
        ctx.count("schedules_run")
        ctx.count("choice_points", len(c.decisions))
        check_run(ctx, focus, ast, c, s, out, how, caps_cfg, stats)
        return out, c, s

    # how many executor jobs does the program have?  (probe run, eager)
    out, c, s = one(ctl.ExtremeChooser("eager_fifo"), "eager_fifo")
    njobs = len(c.submits)
    if njobs <= 5 and dfs_budget:
        def run_with(ch):
            one(ch, "replay:" + json.dumps(ch.decisions))
        done, runs = ctl.dfs_schedules(run_with, dfs_budget)
        ctx.count("dfs_programs")
        if done:
            ctx.count("dfs_completed_programs")
        stats["dfs_runs"] = stats.get("dfs_runs", 0) + runs
    for name, ch in engine.choosers(rnd, n_random):
        one(ch, name)
    ctx.count("distinct_schedule_signatures", len(sigs))
    return sigs


def replay_run(ctx, focus, witness):
    ast, how, caps_cfg = witness["ast"], witness["how"], witness.get("limits")
    out, c, s = engine.run_controlled(wf.build(ast), engine.chooser_from_name(how), limits=caps_cfg, cache=False)
    print("outcome:", engine.outcome_key(out))
    for e in c.events:
        if e[0] != "Q":
            print("  ", e)
    check_run(ctx, focus, ast, c, s, out, how, caps_cfg, {})
