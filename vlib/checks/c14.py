"""C14 — the canonical structure encoding behind every hash is injective.

Monitor: every (normal form, bencode bytes) pair produced by the real redun.bcoding.bencode is
(a) entered in a table bytes -> normal form (collision of two normal forms = violation),
(b) decoded by an independent strict decoder written here (a left inverse proves injectivity on
    everything observed), (c) decoded by redun's own bdecode, (d) re-encoded with permuted dict
    insertion order.  Non-encodable leaves anywhere must raise TypeError.
"""
import random

from redun.bcoding import bdecode, bencode
from redun.hashing import hash_struct

PROPERTY = "C14"
LEVEL = "exploration"
RULE = ("seeded grammar over int / str / bytes / list / tuple / str- or bytes-keyed dict, depth<=5, plus "
        "adversarial neighbours of every structure (strings that contain encodings, split/merged "
        "adjacent strings, nest/flatten, int vs digit string, dict vs list of pairs, prefix keys, "
        "non-UTF-8 bytes, astral code points).  Non-trivial = distinct normal form that contains a "
        "container; distinctness measured on the normal form.")
ASSUMPTIONS = ["structures are finite and acyclic", "dict keys are all str or all bytes (mixed keys are "
               "checked to be rejected or encoded consistently, not required to work)"]

TRICKY = ["", "e", "i1e", "1:a", "le", "de", "l", "d", "0:", "i-0e", "i0e", "3:abc", ":", "1", "10",
          "01", "-1", "a", "ab", "abc", "é", "\U0001f600", "\x00", "d1:ai1ee", "li1ei2ee", "4:spam",
          "i", "-", " ", "0"]


def nf(x):
    """Normal form: str == its utf-8 bytes, list == tuple, dict = sorted item tuple."""
    if isinstance(x, bool) or x is None or isinstance(x, float):
        raise TypeError("not encodable")
    if isinstance(x, int):
        return ("i", x)
    if isinstance(x, str):
        return ("s", x.encode("utf-8"))
    if isinstance(x, bytes):
        return ("s", x)
    if isinstance(x, (list, tuple)):
        return ("l", tuple(nf(v) for v in x))
    if isinstance(x, dict):
        items = []
        for k, v in x.items():
            if isinstance(k, str):
                kb = k.encode("utf-8")
            elif isinstance(k, bytes):
                kb = k
            else:
                raise TypeError("bad key")
            items.append((kb, nf(v)))
        items.sort()
        return ("d", tuple(items))
    raise TypeError("not encodable")


def strict_decode(b):
    """Independent decoder into normal form; raises on any malformed or trailing byte."""
    pos = 0

    def item():
        nonlocal pos
        c = b[pos:pos + 1]
        if c == b"i":
            end = b.index(b"e", pos)
            txt = b[pos + 1:end]
            v = int(txt)
            if str(v).encode() != txt:
                raise ValueError("non-canonical int %r" % txt)
            pos = end + 1
            return ("i", v)
        if c == b"l":
            pos += 1
            out = []
            while b[pos:pos + 1] != b"e":
                out.append(item())
            pos += 1
            return ("l", tuple(out))
        if c == b"d":
            pos += 1
            out = []
            while b[pos:pos + 1] != b"e":
                k = item()
                if k[0] != "s":
                    raise ValueError("non-string key")
                out.append((k[1], item()))
            pos += 1
            if [k for k, _ in out] != sorted(set(k for k, _ in out)):
                raise ValueError("keys not strictly sorted")
            return ("d", tuple(out))
        if c.isdigit():
            colon = b.index(b":", pos)
            txt = b[pos:colon]
            n = int(txt)
            if str(n).encode() != txt:
                raise ValueError("non-canonical length")
            s = b[colon + 1:colon + 1 + n]
            if len(s) != n:
                raise ValueError("short string")
            pos = colon + 1 + n
            return ("s", s)
        raise ValueError("bad byte %r at %d" % (c, pos))

    v = item()
    if pos != len(b):
        raise ValueError("trailing bytes")
    return v


def gen(rnd, depth):
    r = rnd.random()
    if depth <= 0 or r < 0.35:
        k = rnd.random()
        if k < 0.3:
            return rnd.choice([0, 1, -1, 10, -10, 2 ** 64, -(2 ** 70), rnd.randint(-1000, 1000)])
        if k < 0.65:
            return rnd.choice(TRICKY) if rnd.random() < 0.6 else "".join(
                rnd.choice("aei:ld01-é\U0001f600 ") for _ in range(rnd.randint(0, 8)))
        s = rnd.choice(TRICKY).encode() if rnd.random() < 0.5 else bytes(
            rnd.choice([0, 0x65, 0x69, 0x3a, 0xff, 0xc3, 0x80, 0x31]) for _ in range(rnd.randint(0, 6)))
        return s
    if r < 0.6:
        return [gen(rnd, depth - 1) for _ in range(rnd.randint(0, 4))]
    if r < 0.7:
        return tuple(gen(rnd, depth - 1) for _ in range(rnd.randint(0, 3)))
    n = rnd.randint(0, 4)
    as_bytes = rnd.random() < 0.2
    d = {}
    for _ in range(n):
        k = rnd.choice(TRICKY + ["k", "k1", "k10", "kk"])
        d[k.encode() if as_bytes else k] = gen(rnd, depth - 1)
    return d


def neighbours(rnd, x):
    """Structures 'close' to x that a broken encoder could confuse with it."""
    out = []
    if isinstance(x, int) and not isinstance(x, bool):
        out += [str(x), [x], x + 1, -x, "i%de" % x]
    elif isinstance(x, (str, bytes)):
        s = x if isinstance(x, str) else x.decode("latin-1")
        out += [[x], s + "e", "1:" + s, "%d:%s" % (len(s), s), s[:-1], s + s]
        try:
            out.append(int(s))
        except ValueError:
            pass
        if len(s) >= 2:
            out.append([s[:1], s[1:]])
    elif isinstance(x, (list, tuple)):
        x = list(x)
        out += [[x], x + [[]], x + [""], x[:-1], x[::-1], {str(i): v for i, v in enumerate(x)}]
        if len(x) >= 2 and all(isinstance(v, str) for v in x[:2]):
            out.append([x[0] + x[1]] + x[2:])  # merge adjacent strings
        if x and isinstance(x[0], (list, tuple)):
            out.append(list(x[0]) + x[1:])  # flatten
        if x:
            i = rnd.randrange(len(x))
            for nb in neighbours(rnd, x[i])[:3]:
                out.append(x[:i] + [nb] + x[i + 1:])
    elif isinstance(x, dict):
        items = list(x.items())
        out += [[[k, v] for k, v in items], [k for k, _ in items], dict(items[:-1]),
                [x], {**x, "": 0}]
        if items:
            k, v = items[rnd.randrange(len(items))]
            if isinstance(k, str):
                out.append({**{a: b for a, b in items if a != k}, k + "0": v})
                out.append({**{a: b for a, b in items if a != k}, k[:-1]: v})
            for nb in neighbours(rnd, v)[:3]:
                out.append({**x, k: nb})
    return out


def has_bad_leaf(rnd, x):
    """Insert a non-encodable leaf somewhere inside x."""
    bad = rnd.choice([True, False, None, 1.5, object(), 2j])
    if isinstance(x, list) and x and rnd.random() < 0.7:
        i = rnd.randrange(len(x))
        return x[:i] + [has_bad_leaf(rnd, x[i])] + x[i + 1:]
    if isinstance(x, dict) and x and rnd.random() < 0.7:
        k = rnd.choice(list(x))
        if rnd.random() < 0.25:
            badkey = rnd.choice([True, 1, None, 1.5, (1,)])
            return {**x, badkey: 0}
        return {**x, k: has_bad_leaf(rnd, x[k])}
    return rnd.choice([bad, [bad], {"k": bad}])


def observe(ctx, table, x, why):
    try:
        form = nf(x)
    except TypeError:
        return
    try:
        b = bencode(x)
    except Exception as e:
        mixed = _mixed_keys(x)
        if mixed:
            ctx.count("mixed_key_rejected")
            return
        ctx.violation("encodable-rejected", "bencode raised %r" % (e,), {"struct": repr(x), "via": why})
        return
    ctx.ev()
    ctx.count("pairs_observed")
    if form[0] in "ld":
        ctx.nontrivial(repr(form))
    prev = table.get(b)
    if prev is None:
        table[b] = form
    elif prev != form:
        ctx.violation("collision", "two different structures encode to %r" % (b[:80],),
                      {"a": repr(prev)[:500], "b": repr(form)[:500], "bytes": repr(b), "via": why})
    else:
        ctx.count("same_form_same_bytes")
    try:
        back = strict_decode(b)
    except Exception as e:
        ctx.violation("not-decodable", "independent decoder rejects encoding: %r" % (e,),
                      {"struct": repr(x)[:500], "bytes": repr(b)})
        back = form
    if back != form:
        ctx.violation("not-left-invertible", "independent decode differs from the structure",
                      {"struct": repr(x)[:500], "bytes": repr(b), "decoded": repr(back)[:500]})
    try:
        own = bdecode(b)
        if nf(own) != form:
            ctx.violation("bdecode-roundtrip", "bdecode(bencode(x)) != x",
                          {"struct": repr(x)[:500], "decoded": repr(own)[:500]})
        ctx.count("bdecode_roundtrips")
    except Exception as e:
        ctx.violation("bdecode-raises", "bdecode raised %r" % (e,), {"struct": repr(x)[:500], "bytes": repr(b)})
    # key-order independence
    y = permute(x)
    if y is not None:
        ctx.count("dict_permutations")
        if bencode(y) != b:
            ctx.violation("key-order-matters", "dict insertion order changes the encoding", {"struct": repr(x)[:500]})
        if hash_struct(y) != hash_struct(x):
            ctx.violation("key-order-matters", "hash_struct differs", {"struct": repr(x)[:500]})


def _mixed_keys(x):
    if isinstance(x, dict):
        kinds = {type(k) for k in x}
        if len(kinds) > 1:
            return True
        return any(_mixed_keys(v) for v in x.values())
    if isinstance(x, (list, tuple)):
        return any(_mixed_keys(v) for v in x)
    return False


def permute(x):
    """Reverse insertion order of every dict; None if there is no dict with >=2 keys."""
    found = [False]

    def go(v):
        if isinstance(v, dict):
            if len(v) >= 2:
                found[0] = True
            return {k: go(v[k]) for k in reversed(list(v))}
        if isinstance(v, list):
            return [go(a) for a in v]
        if isinstance(v, tuple):
            return tuple(go(a) for a in v)
        return v
    y = go(x)
    return y if found[0] else None


def shard(ctx, n, sub):
    rnd = random.Random("%s-%s-c14" % (ctx.seed, sub))
    table = {}
    for i in range(n):
        x = gen(rnd, rnd.randint(1, 5))
        observe(ctx, table, x, "grammar")
        for y in neighbours(rnd, x):
            observe(ctx, table, y, "neighbour")
            ctx.count("neighbours")
        if i % 4 == 0:
            bad = has_bad_leaf(rnd, x if isinstance(x, (list, dict)) else [x])
            try:
                b = bencode(bad)
                ctx.violation("non-encodable-accepted", "bencode accepted a non-encodable leaf -> %r" % (b[:60],),
                              {"struct": repr(bad)[:500]})
            except TypeError:
                ctx.count("rejections_observed")
            except Exception as e:
                ctx.violation("non-encodable-wrong-error", "expected TypeError, got %r" % (e,), {"struct": repr(bad)[:500]})
        if i < 3:
            ctx.sample({"struct": repr(x)[:300], "bytes": repr(bencode(x))[:300]})
    ctx.extra["table_entries"] = len(table)


def main(ctx):
    n = ctx.pick(1500, 60000)
    ctx.shards("shard", [{"n": n, "sub": s} for s in range(16)])
    ctx.require("pairs_observed", 10000)
    ctx.require("rejections_observed", 100)
    ctx.require("dict_permutations", 100)


def replay(ctx, witness):
    import json
    print(json.dumps(witness, indent=1))
