"""C38 — sub-scheduler runs are equivalent to direct evaluation.

Differential monitor on real sub-schedulers: generated sub-workflows are evaluated through
subrun(expr, executor=...) on the unmodified LocalExecutor (thread mode; process mode for a slice) with
new_execution on/off, cache on/off and cache_scope / check_valid varied, against a file database shared
through the forwarded config.  Oracle: the outcome is one the reference interpreter allows for direct
evaluation; with new_execution=False every sub-job's parent chain reaches the calling job and shares its
execution id, with True a new execution row appears; across repeated executions the backend never
returns a SINGLE (single-reduction) cache result for redun.subrun_root_task (wrapper on check_cache).
"""
import os
import random
import shutil
import sqlite3
import tempfile

from redun import Scheduler
from redun.backends.db import RedunBackendDb
from redun.config import Config
from redun.scheduler import subrun
from redun.task import CacheResult

from vlib import engine, trace, wf, wf_tasks

PROPERTY = "C38"
LEVEL = "exploration"
RULE = ("sub-workflows from C01's generator (depth<=3, no fork/async forms, error leaves allowed) wrapped as "
        "subrun(expr) alone or inside a parent expression; new_execution in {False, True}; run(cache=) in {True, False}; "
        "subrun options cache_scope in {default, CSE, NONE}, check_valid in {default, full}; each case executed 2-3 times "
        "on one file database.  Non-trivial = distinct (program, options) whose sub-workflow has >=2 task calls.")
ASSUMPTIONS = ["local executors only; the sub-scheduler shares the parent's SQLite file through the forwarded config"]

ALLOW = {"leafcall", "inc2", "op", "rop", "cond", "catch", "partial", "seqidx", "sumlist", "rec", "dflt", "kwonly", "varargs",
         "lazy_cond", "lit", "cmp", "getitem", "getattr", "dictget", "fail", "fail_if", "fan", "map", "flat_map", "mklist",
         "seq", "catch_all", "twice", "mapmap", "cont", "containers", "calle", "apply_func", "as_task", "reuse", "guardbare",
         "deep_fail"}

CACHE_LOG = []
_wrapped = False


def install_wrapper():
    global _wrapped
    if _wrapped:
        return
    _wrapped = True
    orig = RedunBackendDb.check_cache

    def check_cache(self, task_hash, *a, **k):
        res = orig(self, task_hash, *a, **k)
        CACHE_LOG.append((task_hash, res[2]))
        return res
    RedunBackendDb.check_cache = check_cache


def make_scheduler(path, mode):
    cfg = Config(config_dict={
        "backend": {"db_uri": "sqlite:///" + path},
        "executors.default": {"type": "local", "mode": "thread", "max_workers": "6"},
        "executors.process": {"type": "local", "mode": "process", "max_workers": "2", "start_method": "fork"},
    })
    s = Scheduler(config=cfg, job_status_interval=None)
    s.load()
    return s


def job_rows(path):
    con = sqlite3.connect(path)
    try:
        rows = con.execute("select j.id, j.parent_id, j.execution_id, t.namespace || '.' || t.name, j.cached from job j join task t on t.hash=j.task_hash").fetchall()
        nexec = con.execute("select count(*) from execution").fetchone()[0]
        return rows, nexec
    finally:
        con.close()


def must_have_child_calls(ast):
    """The top-level form of the sub-expression is a task call (or a container of task calls): evaluating it inside the
    sub-scheduler's root job creates at least one child job with provenance."""
    if ast[0] == "call":
        return True
    if ast[0] == "cont":
        return any(must_have_child_calls(x) for x in (ast[2] if ast[1] != "dict" else [v for _, v in ast[2]]))
    return False


def run_case(ctx, rnd, where):
    install_wrapper()
    d = tempfile.mkdtemp(prefix="verif_c38_")
    cwd = os.getcwd()
    try:
        os.chdir(d)
        path = os.path.join(d, "redun.db")
        g = wf.Gen(rnd, max_depth=rnd.randint(1, 3), fan=2, err_budget=rnd.choice([0, 0, 1]), allow=ALLOW)
        ast = g.program()
        try:
            exp, _ = wf.expected_outcomes(ast)
        except wf.RefTooBig:
            return
        new_exec = rnd.random() < 0.5
        cache = rnd.random() < 0.7
        opts = {}
        if rnd.random() < 0.4:
            opts["cache_scope"] = rnd.choice(["CSE", "NONE", "BACKEND"])
        if rnd.random() < 0.3:
            opts["check_valid"] = rnd.choice(["full", "shallow"])
        executor = "process" if rnd.random() < 0.1 else "default"
        wrap = rnd.random() < 0.4
        feat = wf.features(ast)
        ctx.ev()
        if feat["calls"] >= 2:
            ctx.nontrivial([ast, new_exec, cache, opts, executor])
        wit = {"ast": ast, "new_execution": new_exec, "cache": cache, "options": opts, "executor": executor, "wrapped": wrap, "where": where}
        subrun_hash = None
        first_mode = new_exec
        modes_run = set()
        mixed_modes = rnd.random() < 0.5
        for run_i in range(rnd.choice([2, 3])):
            if mixed_modes and run_i > 0:
                # the same sub-expression through subrun in the other mode, on the same database
                new_exec = (not first_mode) if run_i == 1 else rnd.random() < 0.5
                wit = dict(wit, modes_mixed=True, new_execution=new_exec, run=run_i)
                ctx.count("runs_after_a_run_in_the_other_mode")
            s = make_scheduler(path, executor)
            sub = subrun(wf.build(ast), executor=executor, new_execution=new_exec, **opts)
            expr = [sub, wf_tasks.TASKS["inc"](1)] if wrap else sub
            rows0, nexec0 = job_rows(path) if os.path.exists(path) else ([], 0)
            del CACHE_LOG[:]
            try:
                v = s.run(expr, cache=cache)
                out = ("v", v[0] if wrap else v)
            except Exception as e:
                out = ("e", e)
            key = engine.outcome_key(out)
            ctx.count("subrun_executions")
            ctx.count("mode_new_execution" if new_exec else "mode_extend_execution")
            if key not in exp:
                ctx.violation("subrun-outcome-differs", "run %d: subrun gives %r, direct evaluation allows %r" % (run_i, key, sorted(exp)), wit)
                return
            # cache results used for the subrun task itself
            from redun.scheduler import _subrun_root_task
            single = [ct for th, ct in CACHE_LOG if th == _subrun_root_task.hash and ct == CacheResult.SINGLE]
            ctx.count("subrun_cache_checks", sum(1 for th, _ in CACHE_LOG if th == _subrun_root_task.hash))
            if single:
                ctx.violation("single-reduction-replayed-for-subrun", "check_cache returned SINGLE for redun.subrun_root_task in run %d" % run_i, wit)
                return
            rows1, nexec1 = job_rows(path)
            new_rows = [r for r in rows1 if r[0] not in {x[0] for x in rows0}]
            byid = {r[0]: r for r in rows1}
            sub_jobs = [r for r in new_rows if r[3] == "redun.subrun_root_task" and not r[4]]
            # The two modes are different calls: the first evaluation in a mode cannot be answered from what the other
            # mode recorded (an extending subrun would then have no jobs under the calling job anywhere, a new-execution
            # subrun no execution of its own).
            if new_exec not in modes_run and modes_run and not sub_jobs:
                ctx.violation("subrun-answered-from-the-other-modes-record", "run %d is the first %s subrun of this expression on the "
                              "database, yet no sub-scheduler was started (earlier runs used the other mode)" % (
                                  run_i, "new-execution" if new_exec else "extending"), wit)
                return
            modes_run.add(new_exec)
            if not sub_jobs:
                ctx.count("subrun_served_from_cache")
                continue
            ctx.count("subrun_started")
            sj = sub_jobs[0]
            if new_exec:
                # parent execution + one new execution per started sub-scheduler
                if nexec1 < nexec0 + 2:
                    ctx.violation("new-execution-not-recorded", "executions before %d after %d" % (nexec0, nexec1), wit)
            else:
                if nexec1 != nexec0 + 1:
                    ctx.violation("extend-run-created-execution", "executions before %d after %d" % (nexec0, nexec1), wit)
                # every job of the calling execution that is not an ancestor of the subrun job ...
                mine = [r for r in new_rows if r[2] == sj[2]]
                below = 0
                for r in mine:
                    cur, steps = r, 0
                    while cur is not None and cur[0] != sj[0] and steps < 50:
                        cur = byid.get(cur[1])
                        steps += 1
                    if cur is not None and cur[0] == sj[0] and r[0] != sj[0]:
                        below += 1
                if feat["calls"] >= 1 and out[0] == "v" and below == 0 and not all(o[0] == "e" for o in exp):
                    ctx.violation("sub-jobs-not-under-calling-job", "no job of the sub-execution has the subrun job as an ancestor", wit)
                # no job created by the sub-scheduler may sit in a different execution
                foreign = [r for r in new_rows if r[2] != sj[2]]
                if foreign:
                    ctx.violation("sub-jobs-in-other-execution", "%d new job(s) recorded under another execution id" % len(foreign), wit)
                ctx.count("job_chains_checked", below)
    finally:
        os.chdir(cwd)
        shutil.rmtree(d, ignore_errors=True)


def shard(ctx, n, sub):
    rnd = random.Random("%s-%s-c38" % (ctx.seed, sub))
    import logging
    logging.disable(logging.CRITICAL)
    for i in range(n):
        run_case(ctx, rnd, {"seed": ctx.seed, "sub": sub, "i": i})
    ctx.sample({"options": ["cache_scope", "check_valid", "new_execution", "cache"]})


def main(ctx):
    n = ctx.pick(4, 60)
    ctx.shards("shard", [{"n": n, "sub": s} for s in range(16)], timeout=ctx.pick(900, 3400))
    ctx.require("subrun_executions", 100)
    ctx.require("subrun_started", 40)
    ctx.require("mode_new_execution", 20)
    ctx.require("mode_extend_execution", 20)
    ctx.require("job_chains_checked", 20)


def replay(ctx, witness):
    print(witness)
