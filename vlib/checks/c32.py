"""C32 — the remote job protocol reproduces local execution.

Monitor on the real protocol code: arguments are pickled by get_oneshot_command /
write_array_job_scratch_files, the real `redun oneshot` entry point is run (in-process
RedunClient.execute, and a real subprocess for a slice), and the output / error scratch files are read
with parse_job_result / parse_job_error.  Oracle: same value or same exception (type, message) as
calling the task function locally; array element i (index taken from each supported environment
variable) reads arguments i and writes only output/error i; job names round-trip their hash; reuniting on
a fake in-flight listing pairs exactly equal evaluation hashes.
"""
import json
import os
import random
import shutil
import subprocess
import tempfile
import types

from redun.cli import RedunClient
from redun.executors import aws_batch
from redun.executors.command import get_oneshot_command
from redun.executors.scratch import (SCRATCH_HASHES, get_array_scratch_file, get_job_scratch_file, parse_job_error,
                                     parse_job_result, write_array_job_scratch_files)
from redun.job_array import AWS_ARRAY_VAR, GCP_ARRAY_VAR, K8S_ARRAY_VAR

from vlib import wf_tasks
from vlib.core import short_hash
from vlib.wf import canon

PROPERTY = "C32"
LEVEL = "exploration"
RULE = ("leaf tasks of the vwf library (incl. failing ones, keyword-only and variadic signatures, containers, "
        "NamedTuple/dataclass results) with generated argument sets; single jobs and array jobs of size 1-8 with every "
        "index under each of the index variables (AWS, K8s, GCP, custom); generated job-name prefixes (with hyphens) and "
        "hashes; fake in-flight listings with single and array jobs.  Non-trivial = distinct (task, arguments, mode) "
        "case; array cases count per index.")
ASSUMPTIONS = ["scratch directory on the local filesystem", "the remote side runs the same code (same interpreter, in-process "
               "for most cases, a real subprocess for a slice)"]

CALLS = [("add", lambda r: ((r.randint(0, 9), r.randint(0, 9)), {})),
         ("add", lambda r: ((r.randint(0, 9),), {"b": r.randint(0, 9)})),
         ("mklist", lambda r: (tuple(r.randint(0, 9) for _ in range(r.randint(0, 4))), {})),
         ("mkdict", lambda r: (("k%d" % r.randint(0, 3), [1, r.randint(0, 9)]), {})),
         ("mknt", lambda r: ((r.randint(0, 9), "s"), {})),
         ("mkdc", lambda r: (({"x": r.randint(0, 9)}, (1, 2)), {})),
         ("kwonly", lambda r: ((r.randint(0, 9),), {"b": r.randint(0, 9), "c": r.randint(0, 9)})),
         ("varargs", lambda r: (tuple(r.randint(0, 9) for _ in range(r.randint(1, 4))), {"k": r.randint(1, 3)})),
         ("fail", lambda r: ((r.choice(["VErr", "VErrB", "KeyError", "ValueError"]), "remote-%d" % r.randint(0, 99)), {})),
         ("fail_if", lambda r: ((r.randint(0, 9), 4), {})),
         ("sumlist", lambda r: (([r.randint(0, 9) for _ in range(3)],), {})),
         ("dup", lambda r: ((r.randint(0, 9),), {}))]


def local_outcome(name, args, kwargs):
    try:
        return ("v", repr(canon(wf_tasks.LEAF[name](*args, **kwargs))))
    except Exception as e:
        return ("e", type(e).__name__, str(e))


def fake_job(name, args, kwargs):
    t = wf_tasks.TASKS[name]
    return types.SimpleNamespace(task=t, eval_hash=short_hash([name, repr(args), repr(sorted(kwargs.items()))]) * 2 + "abcdef01",
                                 args=(args, kwargs), id="job-" + name)


def run_oneshot(argv, env_extra, in_subprocess):
    """Returns None; the protocol's observable effects are the scratch files."""
    from redun.utils import clear_import_paths
    clear_import_paths()   # the in-process entry point registers import paths globally; a real worker starts clean
    env_backup = {k: os.environ.get(k) for k in (AWS_ARRAY_VAR, K8S_ARRAY_VAR, GCP_ARRAY_VAR, "VERIF_CUSTOM_INDEX")}
    for k in env_backup:
        os.environ.pop(k, None)
    os.environ.update(env_extra)
    try:
        if in_subprocess:
            env = dict(os.environ)
            code = "import sys; from redun.cli import RedunClient; c = RedunClient(); c.execute(sys.argv[1:])"
            subprocess.run(["/venv/bin/python", "-c", code] + argv, env=env, stdout=subprocess.PIPE, stderr=subprocess.PIPE, timeout=300)
        else:
            client = RedunClient(stdout=open(os.devnull, "w"))
            try:
                client.execute(argv)
            except BaseException:
                pass
    finally:
        clear_import_paths()
        for k, v in env_backup.items():
            os.environ.pop(k, None)
            if v is not None:
                os.environ[k] = v


def observed_outcome(scratch, job):
    result, ok = parse_job_result(scratch, job)
    if ok:
        return ("v", repr(canon(result)))
    err, tb = parse_job_error(scratch, job)
    return ("e", type(err).__name__, str(err))


def single_case(ctx, rnd, where):
    d = tempfile.mkdtemp(prefix="verif_c32_")
    try:
        name, gen = rnd.choice(CALLS)
        args, kwargs = gen(rnd)
        job = fake_job(name, args, kwargs)
        exp = local_outcome(name, args, kwargs)
        argv = get_oneshot_command(d, job, job.task, args, kwargs)
        sub = rnd.random() < 0.07
        run_oneshot(argv, {}, sub)
        got = observed_outcome(d, job)
        ctx.ev()
        ctx.count("single_jobs")
        ctx.count("subprocess_runs" if sub else "inprocess_runs")
        ctx.nontrivial(["single", name, repr(args), repr(kwargs)])
        if got != exp:
            ctx.violation("single-job-outcome-differs", "%s%r %r: remote protocol gives %r, local call gives %r" % (name, args, kwargs, got, exp),
                          {"task": name, "args": repr(args), "kwargs": repr(kwargs), "where": where})
        if exp[0] == "e":
            ctx.count("remote_errors_compared")
    finally:
        shutil.rmtree(d, ignore_errors=True)


def array_case(ctx, rnd, where):
    d = tempfile.mkdtemp(prefix="verif_c32a_")
    try:
        name, gen = rnd.choice([c for c in CALLS if c[0] in ("add", "fail_if", "varargs", "mklist", "dup")])
        n = rnd.randint(1, 8)
        calls = [gen(rnd) for _ in range(n)]
        # distinct eval hashes need distinct arguments
        jobs = [fake_job(name, a + (() if name != "add" else ()), dict(k, **({}))) for a, k in calls]
        for i, j in enumerate(jobs):
            j.eval_hash = short_hash([name, i, repr(calls[i])]) * 2 + "%08d" % i
        array_id = "arr%d" % rnd.randint(0, 10 ** 6)
        files = write_array_job_scratch_files(jobs, d, array_id)
        argv = get_oneshot_command(d, jobs[0], jobs[0].task, array_uuid=array_id)
        var = rnd.choice([AWS_ARRAY_VAR, K8S_ARRAY_VAR, GCP_ARRAY_VAR, "VERIF_CUSTOM_INDEX"])
        if var == "VERIF_CUSTOM_INDEX":
            argv = argv[:argv.index("oneshot") + 2] + ["--array-rank-env", var] + argv[argv.index("oneshot") + 2:] \
                if "--array-rank-env" not in argv else argv
        order = list(range(n))
        rnd.shuffle(order)
        done = set()
        # with an explicitly named rank variable, a scheduler-provided index variable may be present as well (elements
        # packed several per cloud array child): the named variable identifies the element
        decoy = rnd.choice([AWS_ARRAY_VAR, K8S_ARRAY_VAR, GCP_ARRAY_VAR]) if var == "VERIF_CUSTOM_INDEX" and rnd.random() < 0.6 else None
        for i in order:
            env_i = {var: str(i)}
            if decoy:
                env_i[decoy] = str((i + 1 + rnd.randrange(max(n - 1, 1))) % n if n > 1 else 0)
                ctx.count("array_elements_with_decoy_index_variable")
            run_oneshot(argv, env_i, False)
            done.add(i)
            ctx.ev()
            ctx.count("array_elements")
            ctx.count("index_var_" + var.lower()[:12])
            ctx.nontrivial(["array", name, n, i, var])
            exp = local_outcome(name, *calls[i])
            got = observed_outcome(d, jobs[i])
            wit = {"task": name, "n": n, "index": i, "var": var, "calls": repr(calls), "where": where}
            if got != exp:
                ctx.violation("array-element-outcome-differs", "element %d of %d: remote %r, local %r" % (i, n, got, exp), wit)
            # elements not run yet must have neither output nor error
            for j in range(n):
                if j in done:
                    continue
                if os.path.exists(get_job_scratch_file(d, jobs[j], "output")) or os.path.exists(get_job_scratch_file(d, jobs[j], "error")):
                    ctx.violation("array-element-wrote-foreign-file", "running element %d produced a file of element %d" % (i, j), wit)
        ev = open(get_array_scratch_file(d, array_id, SCRATCH_HASHES)).read().splitlines()
        if ev != [j.eval_hash for j in jobs]:
            ctx.violation("eval-hash-file-differs", "eval hash file does not list the jobs' hashes in order", {"where": where})
    finally:
        shutil.rmtree(d, ignore_errors=True)


def name_case(ctx, rnd):
    prefix = rnd.choice(["redun-job", "my-team-redun", "x", "a--b", "job-array", "redun-jd-2024-01", "p_q"])
    h = "%040x" % rnd.getrandbits(160)
    for array in (False, True):
        nm = aws_batch.get_batch_job_name(prefix, h, array)
        ctx.ev()
        ctx.count("job_names")
        ctx.nontrivial(["name", prefix, array])
        if aws_batch.get_hash_from_job_name(nm) != h:
            ctx.violation("job-name-hash-roundtrip", "name %r parses to %r" % (nm, aws_batch.get_hash_from_job_name(nm)), {"prefix": prefix, "hash": h, "array": array})
        if aws_batch.is_array_job_name(nm) != array:
            ctx.violation("array-name-detection", "name %r" % nm, {"prefix": prefix, "array": array})


def reunite_case(ctx, rnd):
    d = tempfile.mkdtemp(prefix="verif_c32r_")
    try:
        ex = aws_batch.AWSBatchExecutor.__new__(aws_batch.AWSBatchExecutor)
        ex.s3_scratch_prefix = d
        ex.preexisting_batch_jobs = {}
        prefix = rnd.choice(["redun-job", "team-x-redun"])
        listing, children, expected = [], {}, {}
        for i in range(rnd.randint(1, 5)):
            h = "%040x" % rnd.getrandbits(160)
            if rnd.random() < 0.5:
                listing.append({"jobName": aws_batch.get_batch_job_name(prefix, h), "jobId": "id-%d" % i})
                expected[h] = "id-%d" % i
            else:
                n = rnd.randint(1, 4)
                hashes = ["%040x" % rnd.getrandbits(160) for _ in range(n)]
                has_file = rnd.random() < 0.8
                if has_file:
                    p = get_array_scratch_file(d, h, SCRATCH_HASHES)
                    os.makedirs(os.path.dirname(p), exist_ok=True)
                    with open(p, "w") as f:
                        f.write("\n".join(hashes))
                jid = "arr-%d" % i
                listing.append({"jobName": aws_batch.get_batch_job_name(prefix, h, array=True), "jobId": jid})
                running = sorted(rnd.sample(range(n), rnd.randint(0, n)))
                children[jid] = [{"jobId": "%s:%d" % (jid, k), "arrayProperties": {"index": k}} for k in running]
                if has_file:
                    for k in running:
                        expected[hashes[k]] = "%s:%d" % (jid, k)
        if rnd.random() < 0.5:
            listing.append({"jobName": "headnode", "jobId": "unrelated"})   # no hash in the name
        ex.get_jobs = lambda statuses=None: list(listing)
        ex.get_array_child_jobs = lambda job_id, statuses=None: children.get(job_id, [])
        ex.gather_inflight_jobs()
        got = dict(ex.preexisting_batch_jobs)
        ctx.ev()
        ctx.count("reunite_listings")
        ctx.nontrivial(["reunite", len(listing), sorted(expected.values())])
        got = {k: v for k, v in got.items() if k != "headnode"}
        if got != expected:
            ctx.violation("reunite-pairs-differ", "paired %r, expected %r" % (sorted(got.items())[:3], sorted(expected.items())[:3]),
                          {"listing": listing})
    finally:
        shutil.rmtree(d, ignore_errors=True)


def shard(ctx, n, sub):
    rnd = random.Random("%s-%s-c32" % (ctx.seed, sub))
    for i in range(n):
        where = {"seed": ctx.seed, "sub": sub, "i": i}
        single_case(ctx, rnd, where)
        if i % 3 == 0:
            array_case(ctx, rnd, where)
        name_case(ctx, rnd)
        if i % 2 == 0:
            reunite_case(ctx, rnd)
    ctx.sample({"tasks": sorted({c[0] for c in CALLS})})


def main(ctx):
    n = ctx.pick(12, 300)
    ctx.shards("shard", [{"n": n, "sub": s} for s in range(16)], timeout=ctx.pick(600, 3400))
    ctx.require("single_jobs", 150)
    ctx.require("array_elements", 150)
    ctx.require("remote_errors_compared", 10)
    ctx.require("reunite_listings", 50)
    ctx.require("subprocess_runs", 3)


def replay(ctx, witness):
    print(witness)
