"""Generates /verif/MANIFEST.json from the table below (python -m vlib.manifest)."""
import json
import os

from vlib import ROOT

BASELINE_OFF = ("cd /repo && env -u REDUN_VERIF /venv/bin/python -m pytest -ra -q -p no:cacheprovider "
                "--timeout=900 --continue-on-collection-errors")

ENGINES = [
    {"name": "core", "path": "vlib/core.py", "serves_properties": [],
     "kind_free_text": "check runner: subprocess shards, monitor counters, three-valued verdicts, "
                       "mechanism-keyed known findings, evidence and replay files"},
]

# id -> (engine, category, technique, level text, level note, design ref)
CHECKS = {}


def reg(pid, engine, technique, text, note, category="exploration"):
    CHECKS[pid] = (engine, category, technique, text, note)


reg("C13", "models", "offline trace checker over instrumented callbacks on the real Promise",
    "Every op sequence up to a length bound (exhaustive) plus seeded random sequences to length 25 is run "
    "on the real Promise with instrumented callbacks; trace invariants (settle-once, exactly-once "
    "notification, registration order, chained outcome, all/wait aggregates) are decided on the recorded "
    "event log with a state snapshot at every event.",
    "Single-threaded use; explicit settles target base promises only; re-entrant registration order is "
    "recorded, not constrained.")
reg("C14", "models", "injectivity table + independent strict decoder over observed (structure, bytes) pairs",
    "Grammar-generated structures and adversarial neighbours are encoded by the real bencode; a bytes->normal "
    "form table detects collisions, an independent strict decoder must invert every encoding, redun's "
    "bdecode must round-trip, dict order permutations must not matter, non-encodable leaves must raise.",
    "Finite acyclic structures; generator classes listed in the evidence rule.")
reg("C34", "io", "round-trip monitor on format_tag_value/parse_tag_value",
    "Seeded JSON values biased to the risky string classes are formatted and re-parsed by the real "
    "functions; type-exact equality is the oracle.", "JSON-compatible values only.")
reg("C35", "io", "round-trip monitor on Config.get_config_dict / Config(config_dict=)",
    "Generated INI texts are loaded, converted to the two-level dict and back by the real Config; the "
    "section tree and every effective value are compared, and replace_config_dir is checked value by value.",
    "Effective value = section[key]; configs whose own interpolation fails are excluded.")


def build():
    checks = []
    for pid in sorted(CHECKS):
        engine, category, technique, text, note = CHECKS[pid]
        checks.append({
            "property_id": pid,
            "quick_cmd": "./check %s --tier quick" % pid,
            "thorough_cmd": "./check %s --tier thorough" % pid,
            "evidence_file": "/verif/evidence/%s.json" % pid,
            "replay_cmd_template": "./check %s --replay {path}" % pid,
            "engine": engine,
            "level_claimed": {"category": category, "text": text, "design_ref": "DESIGN.md §2 %s" % pid},
            "level_note": note,
            "technique": "runtime monitoring: " + technique,
        })
    with open(os.path.join(ROOT, "properties.jsonl")) as f:
        all_ids = [json.loads(l)["id"] for l in f if l.strip()]
    na = [{"property_id": p, "reason": NOT_APPLICABLE.get(p, "check not built yet in this revision")}
          for p in all_ids if p not in CHECKS]
    return {
        "version": 1,
        "setup_cmd": "./setup.sh",
        "hooks": {
            "guard": "REDUN_VERIF",
            "enable": "no source hooks: every monitor is attached from the harness at import time "
                      "(checks import /repo's working tree through the editable install)",
            "baseline_off_cmd": BASELINE_OFF,
            "source_commits": [],
            "add_only": True,
        },
        "engines": ENGINES,
        "checks": checks,
        "not_applicable": na,
        "notes": "Runtime monitoring only; see DESIGN.md. Exit 0 held / 1 violation / 2 inconclusive.",
    }


NOT_APPLICABLE = {}

if __name__ == "__main__":
    m = build()
    with open(os.path.join(ROOT, "MANIFEST.json"), "w") as f:
        json.dump(m, f, indent=1)
        f.write("\n")
    print("wrote MANIFEST.json with %d checks, %d not claimed" % (len(m["checks"]), len(m["not_applicable"])))
