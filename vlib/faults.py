"""Fault injection (DESIGN.md §1.4): process death at commit k, transient OperationalError at statement s."""
import sqlalchemy.exc
from sqlalchemy import event


class Crash(BaseException):
    """Stands for kill -9: nothing in redun catches it; the session is discarded without commit."""


class Counter:
    def __init__(self):
        self.commits = 0
        self.statements = 0


class FaultPlan:
    """Attach to a backend.  crash=(k, 'before'|'after') raises Crash at the k-th commit (1-based);
    transient=s raises OperationalError once at the s-th SQL statement (1-based)."""

    def __init__(self, backend, crash=None, transient=None):
        self.backend = backend
        self.crash = crash
        self.transient = transient
        self.counter = Counter()
        self.fired = False
        self.fired_statement = None
        self._listeners = []

    def __enter__(self):
        session_cls = self.backend.Session
        eng = self.backend.engine
        c = self.counter

        def before_commit(session):
            c.commits += 1
            if self.crash and not self.fired and self.crash[1] == "before" and c.commits == self.crash[0]:
                self.fired = True
                raise Crash("before commit %d" % c.commits)

        def after_commit(session):
            if self.crash and not self.fired and self.crash[1] == "after" and c.commits == self.crash[0]:
                self.fired = True
                raise Crash("after commit %d" % c.commits)

        def before_cursor_execute(conn, cursor, statement, parameters, context, executemany):
            if statement.startswith(("PRAGMA", "SAVEPOINT", "RELEASE")):
                return
            c.statements += 1
            if self.transient and not self.fired and c.statements == self.transient:
                self.fired = True
                self.fired_statement = statement.split("\n")[0][:80]
                raise sqlalchemy.exc.OperationalError(statement, parameters, Exception("injected transient failure"))

        # listen on the backend's own session object and engine only
        event.listen(self.backend.session, "before_commit", before_commit)
        event.listen(self.backend.session, "after_commit", after_commit)
        event.listen(eng, "before_cursor_execute", before_cursor_execute)
        self._listeners = [(self.backend.session, "before_commit", before_commit),
                           (self.backend.session, "after_commit", after_commit),
                           (eng, "before_cursor_execute", before_cursor_execute)]
        return self

    def __exit__(self, *a):
        for target, name, fn in self._listeners:
            try:
                event.remove(target, name, fn)
            except Exception:
                pass
        return False
