"""Two writers on one database record the same (content-addressed) value: the second one's existence check passes before
the first one commits, its INSERT then fails with IntegrityError (UNIQUE constraint) and the error propagates to the
workflow (seen in C38: a sub-scheduler and its parent scheduler share the database)."""
import os
import sys
import tempfile

from sqlalchemy import event

from redun.backends.db import RedunBackendDb
from redun.config import create_config_section

d = tempfile.mkdtemp()
uri = "sqlite:///" + os.path.join(d, "r.db")
a = RedunBackendDb(config=create_config_section({"db_uri": uri}))
a.load()
b = RedunBackendDb(config=create_config_section({"db_uri": uri}))
b.load()
fired = []


def before_cursor_execute(conn, cursor, statement, parameters, context, executemany):
    if statement.startswith("INSERT INTO value") and not fired:
        fired.append(1)
        b.record_value(119)          # the other writer gets there first


event.listen(a.engine, "before_cursor_execute", before_cursor_execute)
try:
    h = a.record_value(119)
    print("recorded", h, "read back", a.get_value(h))
    sys.exit(0)
except Exception as e:
    print("RAISED", type(e).__name__, str(e)[:200])
    sys.exit(1)
