"""Thread interleaving explorer for the code that really has threads (DESIGN.md §1.5).

sys.monitoring LINE events (tool id 4; redun treats only DEBUGGER_ID as "debugger active") are enabled
with set_local_events on the code objects under study only.  Two modes:
  * pause plan: park the first thread that reaches (code, line) for the k-th time until released;
  * yield injection: at each LINE event sleep(0) / a short sleep with seeded probability.
CPython can switch threads between any two bytecodes, so pausing at a line boundary produces only
interleavings the program can really have.
"""
import random
import sys
import threading
import time

TOOL = 4
_mon = sys.monitoring
_lock = threading.Lock()
_state = {"active": False}


class Explorer:
    def __init__(self, functions):
        """functions: python functions / methods whose lines are observable."""
        self.codes = []
        for f in functions:
            f = getattr(f, "__func__", f)
            f = getattr(f, "__wrapped__", f)
            self.codes.append(f.__code__)
        self.plan = None          # (code, line, hit)
        self.hits = {}
        self.reached = threading.Event()
        self.release = threading.Event()
        self.parked_thread = None
        self.only_thread = None   # callable(thread) -> bool
        self.rnd = None
        self.p_yield = 0.0
        self.events = 0
        self.lines_seen = set()
        self.code_lines_seen = set()
        self.max_park = 5.0

    # -- lifecycle ---------------------------------------------------------------------------
    def __enter__(self):
        with _lock:
            if _state["active"]:
                raise RuntimeError("explorer already active")
            _state["active"] = True
        _mon.use_tool_id(TOOL, "verif-thr")
        _mon.register_callback(TOOL, _mon.events.LINE, self._on_line)
        for c in self.codes:
            _mon.set_local_events(TOOL, c, _mon.events.LINE)
        return self

    def __exit__(self, *a):
        self.release.set()
        for c in self.codes:
            try:
                _mon.set_local_events(TOOL, c, 0)
            except Exception:
                pass
        _mon.register_callback(TOOL, _mon.events.LINE, None)
        _mon.free_tool_id(TOOL)
        with _lock:
            _state["active"] = False
        return False

    # -- configuration -----------------------------------------------------------------------
    def lines(self):
        """All (code index, line) pairs with statement starts in the observed functions."""
        out = []
        for i, c in enumerate(self.codes):
            seen = set()
            for _, _, ln in c.co_lines():
                if ln is not None and ln not in seen and ln != c.co_firstlineno:
                    seen.add(ln)
                    out.append((i, ln))
        return out

    def set_plan(self, code_index, line, hit=1, only_thread=None):
        self.plan = (self.codes[code_index], line, hit)
        self.hits = {}
        self.reached.clear()
        self.release.clear()
        self.parked_thread = None
        self.only_thread = only_thread

    def set_random(self, seed, p_yield=0.2):
        self.rnd = random.Random(seed)
        self.p_yield = p_yield
        self.plan = None

    # -- callback ----------------------------------------------------------------------------
    def _on_line(self, code, line):
        self.events += 1
        self.lines_seen.add((code.co_name, line))
        self.code_lines_seen.add((id(code), line))
        plan = self.plan
        if plan is not None and code is plan[0] and line == plan[1] and not self.reached.is_set():
            th = threading.current_thread()
            if self.only_thread is None or self.only_thread(th):
                k = self.hits.get((code, line), 0) + 1
                self.hits[(code, line)] = k
                if k == plan[2]:
                    self.parked_thread = th
                    self.reached.set()
                    self.release.wait(self.max_park)
        elif self.rnd is not None:
            r = self.rnd.random()
            if r < self.p_yield:
                time.sleep(0 if r < self.p_yield * 0.7 else self.rnd.choice([0.00005, 0.0002, 0.0005]))

    def wait_reached(self, timeout):
        return self.reached.wait(timeout)

    def resume(self):
        self.release.set()
