#!/bin/sh
# tools/sweep.sh TIER SEED [IDS...] : run checks sequentially, one summary line each in .scratch/sweep_<tier>_<seed>.txt
TIER=$1; SEED=$2; shift 2
HERE=$(cd "$(dirname "$0")/.." && pwd)
mkdir -p "$HERE/.scratch"
OUT="$HERE/.scratch/sweep_${TIER}_${SEED}.txt"
IDS="$*"
[ -z "$IDS" ] && IDS=$(python3 -c "import json;print(' '.join(c['property_id'] for c in json.load(open('$HERE/MANIFEST.json'))['checks']))")
for id in $IDS; do
  s=$(date +%s)
  "$HERE/check" $id --tier $TIER --seed $SEED > "$HERE/.scratch/sweep_${TIER}_${SEED}_$id.log" 2>&1
  rc=$?
  e=$(date +%s)
  echo "$id rc=$rc $((e-s))s $(grep -c '^VIOLATION' "$HERE/.scratch/sweep_${TIER}_${SEED}_$id.log") viol $(grep -c '^KNOWN-FINDING' "$HERE/.scratch/sweep_${TIER}_${SEED}_$id.log") known $(grep ' tier=' "$HERE/.scratch/sweep_${TIER}_${SEED}_$id.log" | sed 's/.*evaluations/evaluations/')" >> "$OUT"
done
echo DONE >> "$OUT"
