#!/venv/bin/python
"""Run the repository's pinned test suite (guard off) in DIR (default /repo) and compare with
/root/.vp/BASELINE.json stable_pass.  Usage: tools/baseline.py [DIR] [-n N] [pytest args...]"""
import json
import os
import subprocess
import sys
import tempfile
import xml.etree.ElementTree as ET

d = "/repo"
args = sys.argv[1:]
if args and not args[0].startswith("-"):
    d = args.pop(0)
base = json.load(open("/root/.vp/BASELINE.json"))
stable = set(base["stable_pass"])
out = tempfile.mktemp(suffix=".xml")
env = dict(os.environ)
env.pop("REDUN_VERIF", None)
env["PYTHONPATH"] = d
cmd = ["/venv/bin/python", "-m", "pytest", "-q", "-p", "no:cacheprovider", "--timeout=900",
       "--continue-on-collection-errors", "--junitxml=" + out] + args
r = subprocess.run(cmd, cwd=d, env=env, stdout=subprocess.PIPE, stderr=subprocess.STDOUT, text=True)
passed = set()
for tc in ET.parse(out).getroot().iter("testcase"):
    if not any(ch.tag in ("failure", "error", "skipped") for ch in tc):
        passed.add("%s::%s" % (tc.get("classname"), tc.get("name")))
os.unlink(out)
missing = sorted(stable - passed)
# timing-sensitive tests (executor monitor threads, CSE timing) fail sporadically on a loaded machine:
# re-run each missing test alone before believing it
still = []
for m in missing[:25]:
    mod, name = m.split("::", 1)
    path = mod.replace(".", "/") + ".py"
    ok = False
    for attempt in range(2):
        rr = subprocess.run(["/venv/bin/python", "-m", "pytest", "-q", "-p", "no:cacheprovider", "--timeout=900",
                             "%s::%s" % (path, name)], cwd=d, env=env, stdout=subprocess.PIPE, stderr=subprocess.STDOUT, text=True)
        if rr.returncode == 0:
            ok = True
            break
    print("  RERUN %s -> %s" % (m, "passes alone" if ok else "STILL FAILS"))
    if not ok:
        still.append(m)
missing = still + missing[25:]
print(r.stdout[-600:])
print("stable_pass=%d passed_now=%d missing_from_stable=%d" % (len(stable), len(passed), len(missing)))
for m in missing[:40]:
    print("  NOT PASSING:", m)
sys.exit(1 if missing else 0)
