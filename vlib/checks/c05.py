"""C05 — results are never shared between calls with different contexts.

Differential monitor: programs call the same context-reading task with the same arguments under
different effective contexts (none, {x:1}, {x:2}, nested overrides, inherited from a parent or from the
run's root context), sequentially (so the first has finished) and concurrently, within one execution and
across executions on one backend, with full and shallow validity checking, under controlled schedules.
Oracle: the reference interpreter's context model (what each call computes under its own context).
"""
import random

from vlib import ctl, engine, wf

PROPERTY = "C05"
LEVEL = "exploration"
RULE = ("2-5 calls of one of {ctx_read, ctx_child, dflt_ctx, dflt_task (task-call default)} with identical arguments and contexts drawn from "
        "{none, {k:{sub:1}}, {k:{sub:2}}, {k:5}, {other:1}}, combined by seq / list / a parent job carrying its own "
        "override, executed in 1-3 executions (different run contexts) on one backend, check_valid full or shallow.  "
        "Non-trivial = distinct program in which two calls with equal arguments have different effective contexts.")
ASSUMPTIONS = ["sharing of an unevaluated single-reduction (the get_context expression itself) across contexts is not a "
               "shared result; only the values delivered are compared"]

CONTEXTS = [None, {"k": {"sub": 1}}, {"k": {"sub": 2}}, {"k": 5}, {"other": 1}, {}]


def gen_call(rnd, task, shallow):
    ctxv = rnd.choice(CONTEXTS)
    opts = {}
    if ctxv is not None:
        opts["ctx"] = ctxv
    if shallow:
        opts["options"] = {"check_valid": "shallow"}
    if task in ("dflt_ctx", "dflt_task"):
        return ["call", task, [["val", 0]], {}, opts], ctxv
    return ["call", task, [["val", "k.sub"], ["val", "none"]], {}, opts], ctxv


def gen_program(rnd):
    task = rnd.choice(["ctx_read", "ctx_child", "dflt_ctx", "ctx_child", "dflt_task", "dflt_task"])
    shallow = rnd.random() < 0.4
    n = rnd.randint(2, 5)
    calls, ctxs = [], []
    for _ in range(n):
        c, v = gen_call(rnd, task, shallow)
        calls.append(c)
        ctxs.append(v)
    comb = rnd.choice(["seq", "list", "parent", "seq", "mixed"])
    if comb == "seq":
        ast = ["seq", calls]
    elif comb == "list":
        ast = ["cont", "list", calls]
    elif comb == "parent":
        # calls made from beneath a parent job that itself carries an override
        spec = {"reads": [["k.sub", "none"]], "children": [[c[4], {"reads": [["k.sub", "none"]], "children": []}] for c in calls]}
        ast = ["cont", "list", [["call", "ctx_tree", [["val", spec]], {}, {"ctx": rnd.choice(CONTEXTS[1:])}], calls[0]]]
    else:
        ast = ["cont", "list", [["seq", calls[:2]]] + calls[2:]]
    return ast, ctxs, task, shallow, comb


def execute(ast, run_ctxs, schedules, extra_root=None):
    """Runs the executions of one case on a fresh backend; returns index of first mismatch (or None), details."""
    backend = engine.new_backend()
    for i, rc in enumerate(run_ctxs):
        rc2 = rc
        if extra_root:
            rc2 = dict(rc or {}, **extra_root)
        exp, _ = wf.expected_outcomes(ast, context=rc2 or {})
        out, c, s = engine.run_controlled(wf.build(ast), engine.chooser_from_name(schedules[i]), backend=backend,
                                          run_context=rc2, cache=True)
        key = engine.outcome_key(out)
        if key not in exp:
            return i, key, exp
    return None, None, None


def run_case(ctx, rnd, where):
    ast, ctxs, task, shallow, comb = gen_program(rnd)
    nexec = rnd.randint(1, 3)
    run_ctxs = [rnd.choice([None, None, {"k": {"sub": 9}}, {"other": 2}]) for _ in range(nexec)]
    schedules = [engine.choosers(rnd, 6)[rnd.randrange(6)][0] for _ in range(nexec)]
    ctx.ev()
    if len({repr(c) for c in ctxs}) >= 2:
        ctx.nontrivial([ast, run_ctxs])
    ctx.count("executions", nexec)
    ctx.count("comb_" + comb)
    ctx.count("calls_compared", len(ctxs) * nexec)
    i, key, exp = execute(ast, run_ctxs, schedules)
    if i is None:
        return
    # Counterfactual classification: give *every* job a non-empty context by adding a key nobody reads to the
    # run context.  If the mismatch disappears, the sharing involved a call whose effective context is empty
    # (context filters are applied only when the looking-up job has a context); otherwise it is something else.
    j, _, _ = execute(ast, run_ctxs, schedules, extra_root={"zz_unread": 1})
    mech = "empty-context-call-adopts-result-recorded-under-another-context" if j is None else "result-shared-across-contexts"
    ctx.violation(mech, "execution %d (run context %r): observed %r, each call under its own context gives %r" % (
        i, run_ctxs[i], key, sorted(exp)), {"ast": ast, "run_contexts": run_ctxs, "execution": i, "schedules": schedules,
                                            "shallow": shallow, "where": where})


def shard(ctx, n, sub):
    rnd = random.Random("%s-%s-c05" % (ctx.seed, sub))
    for i in range(n):
        run_case(ctx, rnd, {"seed": ctx.seed, "sub": sub, "i": i})
    ctx.sample({"contexts": CONTEXTS})


def main(ctx):
    n = ctx.pick(20, 400)
    ctx.shards("shard", [{"n": n, "sub": s} for s in range(16)], timeout=ctx.pick(600, 3400))
    ctx.require("executions", 400)
    ctx.require("comb_seq", 50)
    ctx.require("comb_parent", 20)


def replay(ctx, witness):
    import json
    print(json.dumps(witness["ast"]))
    i, key, exp = execute(witness["ast"], witness["run_contexts"], witness["schedules"])
    print("first mismatching execution:", i, "observed", key, "expected", sorted(exp) if exp else None)
    if i is not None:
        j, _, _ = execute(witness["ast"], witness["run_contexts"], witness["schedules"], extra_root={"zz_unread": 1})
        mech = "empty-context-call-adopts-result-recorded-under-another-context" if j is None else "result-shared-across-contexts"
        ctx.violation(mech, "observed %r expected %r" % (key, sorted(exp)), witness)
