"""C33 — status filters agree with displayed statuses.

Monitor: on databases produced by generated programs (done, cached, failed, CSE-failed jobs, failed
ancestors replayed in a second execution, and jobs left running by an injected process death) the ids
returned by CallGraphQuery.filter_job_statuses([s]) / filter_execution_statuses([s]) are compared with
the ids of the rows whose displayed status (Job.status / Execution.status) is s.
"""
import os
import random
import shutil
import tempfile

from redun.backends.db import Execution, Job as JobRow
from redun.backends.db.query import CallGraphQuery

from vlib import ctl, engine, faults, hist, wf
from vlib.checks import c22

PROPERTY = "C33"
LEVEL = "exploration"
RULE = ("file databases built from 2-5 executions of C01-style programs (error leaves, catch_all over duplicate failing "
        "calls, cached re-executions of failing programs) of which one execution may be killed at a random commit; all "
        "four statuses are queried for jobs and executions.  Non-trivial = distinct database containing a "
        "cached-and-failed job or a running job.")
ASSUMPTIONS = ["displayed status = the status property of the Job / Execution rows (as used by `redun log`)"]

STATUSES = ["RUNNING", "CACHED", "FAILED", "DONE"]


def cse_failed_program(rnd):
    """The same failing call under two parents inside catch_all: the second is served by CSE of an error."""
    x = rnd.randint(0, 9)
    f = ["call", "fail", [["val", "VErr"], ["val", "cse%d" % x]], {}, {}]
    import json
    cp = lambda: json.loads(json.dumps(f))  # noqa: E731
    return ["catch_all", ["cont", "list", [["call", "deep_fail", [["val", 1], ["val", "VErr"], ["val", "d%d" % x]], {}, {}],
                                           ["seq", [["catch", cp(), [[["VErr"], "recov_const"]]],
                                                    ["call", "mklist", [["catch", cp(), [[["VErr"], "recov_const"]]]], {}, {}]]],
                                           ["call", "inc", [["val", x]], {}, {}]]], ["VErr"], "count_errs"]


def classify(kind, s, row_status, cached):
    if s == "CACHED" and row_status == "FAILED" and cached:
        return "cached-filter-returns-cached-and-failed-%ss" % kind
    if s == "DONE" and row_status == "FAILED" and cached and kind == "execution":
        return "cached-filter-returns-cached-and-failed-executions"
    return "unclassified"


def audit(ctx, path, wit):
    backend = c22.open_backend(path)
    try:
        ses = backend.session
        jobs = ses.query(JobRow).all()
        displayed = {j.id: j.status for j in jobs}
        cached = {j.id: bool(j.cached) for j in jobs}
        for st in STATUSES:
            ctx.count("jobs_with_status_" + st, sum(1 for v in displayed.values() if v == st))
        ncf = sum(1 for j in jobs if cached[j.id] and displayed[j.id] == "FAILED")
        ctx.count("cached_and_failed_jobs", ncf)
        for st in STATUSES:
            got = {r.id for r in CallGraphQuery(ses).filter_types(["Job"]).filter_job_statuses([st]).all()}
            exp = {i for i, v in displayed.items() if v == st}
            ctx.count("job_filter_queries")
            for i in got - exp:
                ctx.violation(classify("job", st, displayed[i], cached[i]),
                              "job filter %s returns a job whose displayed status is %s (cached=%s)" % (st, displayed[i], cached[i]), wit)
            for i in exp - got:
                ctx.violation("job-filter-misses:" + st, "job filter %s misses a job displayed as %s (cached=%s)" % (st, st, cached[i]), wit)
        execs = ses.query(Execution).all()
        edisp = {e.id: e.status for e in execs}
        ecached = {e.id: bool(e.job.cached) if e.job else False for e in execs}
        for st in STATUSES:
            ctx.count("executions_with_status_" + st, sum(1 for v in edisp.values() if v == st))
        for st in STATUSES:
            if st == "CACHED":
                continue  # executions are never displayed as CACHED (a cached root job shows as DONE)
            got = {r.id for r in CallGraphQuery(ses).filter_types(["Execution"]).filter_execution_statuses([st]).all()}
            exp = {i for i, v in edisp.items() if v == st}
            ctx.count("execution_filter_queries")
            for i in got - exp:
                ctx.violation(classify("execution", st, edisp[i], ecached[i]),
                              "execution filter %s returns an execution displayed as %s" % (st, edisp[i]), wit)
            for i in exp - got:
                ctx.violation("execution-filter-misses:" + st, "execution filter %s misses an execution displayed as %s" % (st, st), wit)
        return ncf, sum(1 for v in displayed.values() if v == "RUNNING")
    finally:
        hist.close_backend(backend)


def run_case(ctx, rnd, where):
    d = tempfile.mkdtemp(prefix="verif_c33_")
    try:
        path = os.path.join(d, "r.db")
        progs = []
        for _ in range(rnd.randint(2, 4)):
            if rnd.random() < 0.35:
                progs.append(cse_failed_program(rnd))
            else:
                g = wf.Gen(rnd, max_depth=3, fan=3, err_budget=rnd.choice([0, 1, 2]))
                a = g.program()
                try:
                    wf.expected_outcomes(a)
                except wf.RefTooBig:
                    continue
                progs.append(a)
                if rnd.random() < 0.5:
                    progs.append(a)   # run again: cached jobs, replayed ancestors of failures
        crash_at = rnd.randint(3, 40) if rnd.random() < 0.5 else None
        crash_exec = rnd.randrange(len(progs)) if progs else 0
        for i, a in enumerate(progs):
            backend = c22.open_backend(path)
            plan = faults.FaultPlan(backend, crash=(crash_at, "after") if (crash_at and i == crash_exec) else None)
            try:
                with plan:
                    try:
                        engine.run_controlled(wf.build(a), ctl.RandomChooser(rnd.randrange(1 << 30)), backend=backend)
                    except faults.Crash:
                        ctx.count("executions_killed")
            finally:
                hist.close_backend(backend)
            ctx.count("executions")
        ctx.ev()
        wit = {"programs": progs, "crash": [crash_exec, crash_at], "where": where}
        ncf, nrun = audit(ctx, path, wit)
        if ncf or nrun:
            ctx.nontrivial([progs, crash_exec, crash_at])
        return progs
    finally:
        shutil.rmtree(d, ignore_errors=True)


def shard(ctx, n, sub):
    rnd = random.Random("%s-%s-c33" % (ctx.seed, sub))
    for i in range(n):
        run_case(ctx, rnd, {"seed": ctx.seed, "sub": sub, "i": i})
    ctx.sample({"statuses": STATUSES})


def main(ctx):
    n = ctx.pick(5, 70)
    ctx.shards("shard", [{"n": n, "sub": s} for s in range(16)], timeout=ctx.pick(600, 3400))
    for st in STATUSES:
        ctx.require("jobs_with_status_" + st, 5)
    ctx.require("cached_and_failed_jobs", 3)
    ctx.require("executions_with_status_FAILED", 3)
    ctx.require("executions_with_status_DONE", 3)


def replay(ctx, witness):
    w = witness["where"]
    from vlib.core import Ctx
    rnd = random.Random("%s-%s-c33" % (w["seed"], w["sub"]))
    for i in range(w["i"] + 1):
        run_case(ctx if i == w["i"] else Ctx("C33", "quick", w["seed"]), rnd, w)
