#!/venv/bin/python
"""tools/seed_finish.py ID [--name NAME] <check>... : finish the confirmation of a seeded change whose full-suite run
(tools/seed_confirm.py, log /tmp/seed/confirm_<ID>.log) only missed tests that are timing-sensitive under machine load:
re-run exactly those tests alone (up to 3 times) in a scratch worktree carrying the change, re-run the given checks, file
the change under /verif/seeded/<NAME>/."""
import json
import os
import re
import shutil
import subprocess
import sys
import tempfile

args = sys.argv[1:]
sid = args.pop(0)
name = sid
srcroot = "/tmp/seed"
while args and args[0].startswith("--"):
    a = args.pop(0)
    if a == "--name":
        name = args.pop(0)
    elif a == "--src":
        srcroot = args.pop(0)
checks = args
log = open("%s/confirm_%s.log" % (srcroot, sid)).read()
res = json.loads(log[log.find("{"):log.rfind("}") + 1])
missing = re.findall(r"NOT PASSING: (\S+)", res.get("suite_summary", ""))
m = re.search(r"missing_from_stable=(\d+)", res.get("suite_summary", ""))
nmiss = int(m.group(1)) if m else None
src = "%s/%s.out" % (srcroot, sid)
wt = tempfile.mkdtemp(prefix="seedwt.", dir="/tmp")
os.rmdir(wt)
subprocess.check_call(["git", "-C", "/repo", "worktree", "add", "-q", "--detach", wt, "HEAD"])
try:
    ap = subprocess.run(["git", "-C", wt, "apply", "--3way", os.path.join(src, "patch.diff")], stdout=subprocess.PIPE,
                        stderr=subprocess.STDOUT, text=True)
    if ap.returncode != 0:
        print("patch does not apply", ap.stdout)
        sys.exit(1)
    env = dict(os.environ, PYTHONPATH=wt)
    ok_all = nmiss is not None and nmiss == len(missing)
    reruns = {}
    for t in missing:
        mod, fn = t.split("::")
        path = mod.replace(".", "/") + ".py::" + fn
        passed = False
        for attempt in range(3):
            r = subprocess.run(["/venv/bin/python", "-m", "pytest", "-q", "-p", "no:cacheprovider", "--timeout=900", path], cwd=wt,
                               env=env, stdout=subprocess.PIPE, stderr=subprocess.STDOUT, text=True)
            if r.returncode == 0:
                passed = True
                break
        reruns[t] = passed
        ok_all = ok_all and passed
    res["isolated_reruns_of_load_sensitive_tests"] = reruns
    res["suite_passes_with_change"] = bool(ok_all)
    res["suite_note"] = "full pinned suite run under heavy machine load; the stable tests it missed were re-run alone with the change"
    res["checks"] = {}
    save = tempfile.mkdtemp(prefix="evsave.", dir="/tmp")
    for c in checks:
        r = subprocess.run(["/verif/check", c], env=dict(os.environ, VERIF_REPO=wt, VERIF_OUT_DIR=save), stdout=subprocess.PIPE,
                           stderr=subprocess.STDOUT, text=True)
        lines = [l for l in r.stdout.splitlines() if l.startswith(("VIOLATION", "KNOWN", "INCONCLUSIVE", "  mechanism")) or " tier=" in l]
        res["checks"][c] = {"exit": r.returncode, "lines": [l[:300] for l in lines][:8]}
    shutil.rmtree(save)
finally:
    subprocess.call(["git", "-C", "/repo", "worktree", "remove", "--force", wt])
ok = res.get("demo_without_change") == 0 and res.get("demo_with_change") not in (0, None) and res.get("suite_passes_with_change")
res["kept"] = bool(ok)
res["rechecked_at_repo_commit"] = subprocess.check_output(["git", "-C", "/repo", "rev-parse", "--short", "HEAD"], text=True).strip()
print(json.dumps({k: v for k, v in res.items() if k not in ("demo_output_with_change",)}, indent=1)[-1500:])
if ok:
    dst = "/verif/seeded/%s" % name
    os.makedirs(dst, exist_ok=True)
    shutil.copy(os.path.join(src, "patch.diff"), os.path.join(dst, "patch.diff"))
    shutil.copy(os.path.join(src, "demo.py"), os.path.join(dst, "demo.py"))
    meta = {}
    try:
        meta = json.load(open(os.path.join(src, "meta.json")))
    except Exception:
        pass
    out = {"property": meta.get("property", sid), "summary": meta.get("summary"), "needs": meta.get("needs"),
           "files": meta.get("files"), "author": "independent sub-agent given only the property text", "confirmation": res,
           "run_checks": checks, "detected_by": [c for c, v in res.get("checks", {}).items() if v["exit"] == 1]}
    json.dump(out, open(os.path.join(dst, "meta.json"), "w"), indent=1)
    print("filed under", dst, "detected_by", out["detected_by"])
