import time
from redun import Scheduler, task
from redun.functools import no_prov

@task(namespace="d")
def ident(x):
    return x

@task(namespace="d")
def slow_inc(x):
    time.sleep(0.5)
    return x + 1

@task(namespace="d")
def main():
    # the same call twice: first without provenance, and - while that job is still running - with provenance
    return [no_prov(slow_inc(1)), slow_inc(ident(ident(1)))]

s = Scheduler()
s.load()
try:
    print(s.run(main()))
except Exception as e:
    print("RAISED", type(e).__name__, str(e)[:300])
