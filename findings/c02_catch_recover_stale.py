"""Standalone reproduction (plain redun, no harness): a recovered error stays cached by catch() after
the failing task's code is fixed.  Exit 1 when the defect is present."""
import sys
from redun import Scheduler, task, catch

class Boom(Exception):
    pass

def define(fail):
    src = "version-fail" if fail else "version-ok"
    @task(name="flaky", namespace="demo", source=src)
    def flaky(x):
        if fail:
            raise Boom("bug")
        return x * 10
    return flaky

@task(name="recover", namespace="demo")
def recover(err):
    return -1

@task(name="main", namespace="demo")
def main(x):
    from redun.task import get_task_registry
    return catch(get_task_registry().get("demo.flaky")(x), Boom, recover)

s = Scheduler()
s.load()
define(fail=True)
r1 = s.run(main(3))
define(fail=False)             # the user fixes the bug in flaky()
r2 = Scheduler(backend=s.backend).run(main(3))
fresh = Scheduler(); fresh.load()
r3 = fresh.run(main(3))
print("with buggy task:", r1, "| after fix, same backend:", r2, "| after fix, empty backend:", r3)
sys.exit(0 if r2 == r3 else 1)
