"""C11 — the job arrayer hands off every job exactly once.

History monitor on the real JobArrayer with its real monitor thread.  Every job object carries a unique
id, the submit callback records (batch index, thread, ids), on_error records the exception.  Interleavings
are produced two ways (vlib/thr.py, sys.monitoring LINE events restricted to the arrayer's own methods):
  * systematic: for every statement line of _monitor_stale_jobs / get_stale_descrs / submit_pending_jobs
    (and the k-th time it is reached), park the monitor thread there, let the adding thread perform one of a
    set of additions (new description, same description, several), release; and the dual - park the adding
    thread at every line of add_job and let the monitor run whole polling cycles;
  * randomized stress: several adding threads, seeded yield injection at every observed line.
Oracle at quiescence (adds finished, bounded number of polling cycles allowed): multiset of submitted ids
== added ids; each batch homogeneous in (task, options); len <= max; len == 1 or len >= min; on_error never
called and the monitor thread did not die; num_pending == sum(len(pending[d])) == added - handed off.
"""
import random
import threading
import time
import types

from redun.job_array import JobArrayer, JobDescription

from vlib import thr

PROPERTY = "C11"
LEVEL = "exploration"
RULE = ("job streams of 3..60 jobs over 1..4 (task, options) descriptions, min_array_size in 2..5, max_array_size in "
        "min..min+6, stale_time 0 or 2 polling intervals, interval 1 ms; systematic: one preemption at every statement "
        "line (1st..3rd arrival) of the three monitor-side methods and of add_job, crossed with 5 addition patterns; "
        "stress: one adding thread (the scheduler thread's role) with seeded pauses and seeded yields on every line.  Non-trivial = distinct (park point, hit, "
        "pattern) whose park point was really reached, plus distinct stress configurations with >= 2 descriptions.")
ASSUMPTIONS = ["add_job has a single caller thread, as in the executors (Executor.submit runs on the scheduler thread)",
               "the submit callback is the boundary: executors' own submission code is not driven here",
               "CPython GIL semantics: preemption only between bytecodes; line-granular park points"]

FUNCS = [JobArrayer._monitor_stale_jobs, JobArrayer.get_stale_descrs, JobArrayer.submit_pending_jobs, JobArrayer.add_job]
MON_SIDE = (0, 1, 2)
ADD_SIDE = (3,)


def mkjob(jid, descr_i):
    task = types.SimpleNamespace(script=False, fullname="vwf.t%d" % (descr_i % 2))
    opts = {"memory": 1 + descr_i // 2, "vcpus": 1}
    return types.SimpleNamespace(id=jid, task=task, get_options=lambda: dict(opts), descr_i=descr_i)


class Rec:
    def __init__(self):
        self.lock = threading.Lock()
        self.batches = []
        self.errors = []

    def submit(self, jobs):
        with self.lock:
            self.batches.append((threading.current_thread().name, [j.id for j in jobs], [JobDescription(j).key for j in jobs]))

    def on_error(self, e):
        with self.lock:
            self.errors.append(e)


def count_cycles(arr):
    """Count polling cycles of the monitor thread: every call of get_stale_descrs starts a new cycle, and the previous
    cycle (including submit_pending_jobs' counter update) is then complete."""
    arr.verif_cycles = 0
    orig = arr.get_stale_descrs

    def get_stale_descrs():
        arr.verif_cycles += 1
        return orig()
    arr.get_stale_descrs = get_stale_descrs


def settle(arr, rec, n_added, interval, cycles=400):
    """Wait until everything was handed off, then until the monitor has begun two further polling cycles (a logical
    quiescence criterion: the cycle that handed off the last job has finished).  Returns False when the generous
    wall-clock watchdog fires first (the case is then inconclusive, not a violation)."""
    t0 = time.time()
    start_cycles = arr.verif_cycles
    handed = False
    while time.time() - t0 < 30:
        with rec.lock:
            n = sum(len(b[1]) for b in rec.batches)
            errs = len(rec.errors)
        if n >= n_added or errs or not arr._monitor_thread.is_alive():
            handed = True
            break
        if arr.verif_cycles - start_cycles >= 300:
            # 300 complete polling cycles after the last addition and still something pending: decided on logical steps
            return True
        time.sleep(max(interval, 0.001))
    if not handed:
        return False
    if rec.errors or not arr._monitor_thread.is_alive():
        return True
    c0 = arr.verif_cycles
    while time.time() - t0 < 40:
        if arr.verif_cycles >= c0 + 2 or not arr._monitor_thread.is_alive():
            return True
        time.sleep(max(interval, 0.001))
    return False


def judge(ctx, arr, rec, added, cfg, wit):
    ids = [i for b in rec.batches for i in b[1]]
    ctx.count("jobs_added", len(added))
    ctx.count("batches", len(rec.batches))
    bad = False
    if rec.errors:
        e = rec.errors[0]
        ctx.violation("monitor-failed-%s" % type(e).__name__, "on_error called with %r" % (e,), wit)
        bad = True
    from collections import Counter
    c = Counter(ids)
    dup = [i for i, n in c.items() if n > 1]
    lost = [i for i in added if i not in c]
    extra = [i for i in c if i not in set(added)]
    if dup:
        ctx.violation("job-submitted-twice", "ids %r handed off more than once" % dup[:5], wit)
        bad = True
    if extra:
        ctx.violation("unknown-job-submitted", "ids %r" % extra[:5], wit)
        bad = True
    if lost and not rec.errors:
        if arr._monitor_thread.is_alive():
            ctx.violation("job-never-handed-off", "%d job(s) still pending after 300 further polling cycles, monitor alive" % len(lost), wit)
        else:
            ctx.violation("job-lost-monitor-dead", "%d job(s) pending and no monitor thread alive" % len(lost), wit)
        bad = True
    for th, b, keys in rec.batches:
        if len(set(keys)) != 1:
            ctx.violation("batch-mixes-descriptions", "batch %r has keys %r" % (b, sorted(set(keys))), wit)
            bad = True
        if len(b) > cfg["max"]:
            ctx.violation("batch-exceeds-max", "batch of %d > max %d" % (len(b), cfg["max"]), wit)
            bad = True
        if not (len(b) == 1 or len(b) >= cfg["min"]):
            ctx.violation("batch-below-min", "batch of %d with min %d" % (len(b), cfg["min"]), wit)
            bad = True
        if len(b) > 1:
            ctx.count("array_batches")
    with arr._lock:
        held = sum(len(v) for v in arr.pending.values())
        npend = arr.num_pending
        ts_keys = set(arr.pending_timestamps)
        p_keys = {k for k, v in arr.pending.items()}
    if not rec.errors:
        if npend != held or held != len(added) - len(set(ids)):
            ctx.violation("pending-count-drift", "num_pending=%d, jobs held=%d, added-handed=%d" % (npend, held, len(added) - len(set(ids))), wit)
            bad = True
        if ts_keys != p_keys:
            ctx.violation("timestamps-out-of-sync", "pending keys %d vs timestamp keys %d" % (len(p_keys), len(ts_keys)), wit)
            bad = True
    return not bad


PATTERNS = ["new_descr", "same_descr", "two_new", "same_then_new", "burst_same"]


def pattern_jobs(pattern, base_id, cur_descr):
    if pattern == "new_descr":
        return [mkjob(base_id, cur_descr + 1)]
    if pattern == "same_descr":
        return [mkjob(base_id, cur_descr)]
    if pattern == "two_new":
        return [mkjob(base_id, cur_descr + 1), mkjob(base_id + 1, cur_descr + 2)]
    if pattern == "same_then_new":
        return [mkjob(base_id, cur_descr), mkjob(base_id + 1, cur_descr + 1)]
    return [mkjob(base_id + k, cur_descr) for k in range(4)]


def systematic_monitor_side(ctx, ex, code_i, line, hit, pattern, cfg):
    """Park the monitor thread at (code_i, line, hit); add jobs from the calling thread; release."""
    rec = Rec()
    arr = JobArrayer(rec.submit, rec.on_error, submit_interval=cfg["interval"], stale_time=cfg["stale"],
                     min_array_size=cfg["min"], max_array_size=cfg["max"])
    count_cycles(arr)
    added = []
    wit = {"mode": "park-monitor", "func": ex.codes[code_i].co_name, "line_offset": line - ex.codes[code_i].co_firstlineno,
           "hit": hit, "pattern": pattern, "cfg": cfg}
    ex.set_plan(code_i, line, hit, only_thread=lambda t: t is not threading.main_thread() and t.name.startswith("Thread"))
    try:
        # initial content: enough jobs of description 0 for a remainder (max+2) so that all branches of
        # submit_pending_jobs are on the path
        n0 = cfg["initial"]
        for k in range(n0):
            j = mkjob(k, 0)
            added.append(j.id)
            arr.add_job(j)
        reached = ex.wait_reached(0.3)
        if reached:
            ctx.count("park_points_reached")
            ctx.nontrivial(["mon", wit["func"], wit["line_offset"], hit, pattern, cfg["initial"], cfg["min"], cfg["max"]])
            pj = pattern_jobs(pattern, 1000, 0)
            added.extend(j.id for j in pj)
            # the park point may be inside the arrayer's own lock: add from a helper thread so that a blocked
            # add_job (correct mutual exclusion) is observed rather than waited out
            h = threading.Thread(target=lambda: [arr.add_job(j) for j in pj], name="adder", daemon=True)
            h.start()
            h.join(0.05)
            if h.is_alive():
                ctx.count("park_points_inside_lock")
                ex.resume()
                h.join(5)
            else:
                ctx.count("additions_while_monitor_parked")
        else:
            ctx.count("park_points_not_on_path")
        ex.resume()
        ex.plan = None
        if not settle(arr, rec, len(added), cfg["interval"]):
            ctx.count("inconclusive_no_quiescence_within_watchdog")
            ctx.mark_inconclusive("monitor did not begin two further cycles within the watchdog: %r" % (wit,))
            return False
        ctx.ev()
        return judge(ctx, arr, rec, added, cfg, wit)
    finally:
        ex.resume()
        arr.stop()


def systematic_add_side(ctx, ex, line, hit, cfg):
    """Park an adding thread inside add_job; let the monitor run whole cycles; release."""
    rec = Rec()
    arr = JobArrayer(rec.submit, rec.on_error, submit_interval=cfg["interval"], stale_time=cfg["stale"],
                     min_array_size=cfg["min"], max_array_size=cfg["max"])
    count_cycles(arr)
    added = []
    wit = {"mode": "park-adder", "line_offset": line - ex.codes[3].co_firstlineno, "hit": hit, "cfg": cfg}
    ex.set_plan(3, line, hit, only_thread=lambda t: t.name == "adder")
    try:
        jobs = [mkjob(k, (k // 2) % 3) for k in range(cfg["initial"])]
        added.extend(j.id for j in jobs)

        def adder():
            for j in jobs:
                arr.add_job(j)
        t = threading.Thread(target=adder, name="adder", daemon=True)
        t.start()
        if ex.wait_reached(0.3):
            ctx.count("park_points_reached")
            ctx.nontrivial(["add", wit["line_offset"], hit, cfg["initial"], cfg["min"], cfg["max"]])
            # also add from this thread while the adder is parked (it may be parked holding the lock:
            # then do not add, only let the monitor poll)
            time.sleep(cfg["interval"] * 6 + 0.004)
            ctx.count("monitor_cycles_while_adder_parked")
        else:
            ctx.count("park_points_not_on_path")
        ex.resume()
        ex.plan = None
        t.join(5)
        if not settle(arr, rec, len(added), cfg["interval"]):
            ctx.count("inconclusive_no_quiescence_within_watchdog")
            ctx.mark_inconclusive("monitor did not begin two further cycles within the watchdog: %r" % (wit,))
            return False
        ctx.ev()
        return judge(ctx, arr, rec, added, cfg, wit)
    finally:
        ex.resume()
        arr.stop()


def shard_systematic(ctx, part, parts):
    rnd = random.Random("%s-c11-sys" % ctx.seed)
    with thr.Explorer(FUNCS) as ex:
        points = ex.lines()
        work = []
        for (ci, ln) in points:
            for hit in (1, 2, 3):
                if ci in MON_SIDE:
                    for p in PATTERNS:
                        work.append((ci, ln, hit, p))
                else:
                    work.append((ci, ln, hit, None))
        cfgs = [{"min": 2, "max": 3, "initial": 5, "stale": 0.0, "interval": 0.001},
                {"min": 3, "max": 3, "initial": 2, "stale": 0.0, "interval": 0.001},
                {"min": 2, "max": 6, "initial": 4, "stale": 0.0, "interval": 0.001}]
        if not ctx.is_quick():
            cfgs += [{"min": 4, "max": 5, "initial": 11, "stale": 0.002, "interval": 0.001},
                     {"min": 2, "max": 2, "initial": 7, "stale": 0.0, "interval": 0.0005}]
        k = 0
        for w in work:
            for cfg in cfgs:
                k += 1
                if k % parts != part:
                    continue
                if ctx.is_quick() and rnd.random() < 0.0:
                    continue
                ci, ln, hit, p = w
                if ci in MON_SIDE:
                    systematic_monitor_side(ctx, ex, ci, ln, hit, p, dict(cfg))
                else:
                    systematic_add_side(ctx, ex, ln, hit, dict(cfg))
        ctx.count("line_events", ex.events)
        ctx.extra.setdefault("lines_seen", sorted("%s+%d" % (n, l) for n, l in ex.lines_seen)[:80])


def stress_case(ctx, ex, rnd, where):
    mn = rnd.randint(2, 5)
    cfg = {"min": mn, "max": mn + rnd.randint(0, 6), "stale": rnd.choice([0.0, 0.0, 0.002]), "interval": 0.001}
    # one adding thread: add_job is only ever called from the scheduler thread (Executor.submit); with two callers
    # start() itself can create two monitor threads, which is outside the property's environment
    nthreads = 1
    ndescr = rnd.randint(1, 4)
    total = rnd.randint(3, 60)
    rec = Rec()
    arr = JobArrayer(rec.submit, rec.on_error, submit_interval=cfg["interval"], stale_time=cfg["stale"],
                     min_array_size=cfg["min"], max_array_size=cfg["max"])
    count_cycles(arr)
    seed = rnd.getrandbits(32)
    ex.set_random(seed, p_yield=rnd.choice([0.1, 0.3, 0.6]))
    jobs = [mkjob(i, rnd.randrange(ndescr) if rnd.random() < 0.8 else i % 7) for i in range(total)]
    chunks = [jobs[i::nthreads] for i in range(nthreads)]
    pauses = [[rnd.choice([0, 0, 0, 0.0005, 0.002]) for _ in c] for c in chunks]
    wit = {"mode": "stress", "cfg": cfg, "threads": nthreads, "descriptions": ndescr, "jobs": total, "yield_seed": seed, "where": where}

    def adder(c, ps):
        for j, p in zip(c, ps):
            if p:
                time.sleep(p)
            arr.add_job(j)
    ths = [threading.Thread(target=adder, args=(c, ps), name="adder", daemon=True) for c, ps in zip(chunks, pauses)]
    try:
        for t in ths:
            t.start()
        for t in ths:
            t.join(20)
        if not settle(arr, rec, total, cfg["interval"]):
            ctx.count("inconclusive_no_quiescence_within_watchdog")
            ctx.mark_inconclusive("monitor did not begin two further cycles within the watchdog: %r" % (wit,))
            return False
        ctx.ev()
        ctx.count("stress_runs")
        if ndescr >= 2:
            ctx.nontrivial(["stress", cfg["min"], cfg["max"], nthreads, ndescr, total, seed])
        ok = judge(ctx, arr, rec, [j.id for j in jobs], cfg, wit)
        sig = tuple(len(b[1]) for b in rec.batches)
        ctx.extra.setdefault("batch_shapes", set()).add(sig[:12])
        return ok
    finally:
        arr.stop()
        ex.rnd = None


def shard_stress(ctx, n, sub):
    rnd = random.Random("%s-%s-c11-stress" % (ctx.seed, sub))
    with thr.Explorer(FUNCS) as ex:
        for i in range(n):
            stress_case(ctx, ex, rnd, {"seed": ctx.seed, "sub": sub, "i": i})
        ctx.count("line_events", ex.events)
    shapes = ctx.extra.pop("batch_shapes", set())
    ctx.count("distinct_batch_shape_sequences", len(shapes))
    ctx.sample({"batch_size_sequences": [list(s) for s in sorted(shapes)[:5]]})


def main(ctx):
    parts = 16
    ctx.shards("shard_systematic", [{"part": p, "parts": parts} for p in range(parts)], timeout=ctx.pick(600, 3000))
    n = ctx.pick(12, 400)
    ctx.shards("shard_stress", [{"n": n, "sub": s} for s in range(8)], timeout=ctx.pick(600, 3000))
    ctx.require("park_points_reached", 100)
    ctx.require("additions_while_monitor_parked", 60)
    ctx.require("monitor_cycles_while_adder_parked", 10)
    ctx.require("stress_runs", 60)
    ctx.require("array_batches", 50)


def replay(ctx, witness):
    print(witness)
