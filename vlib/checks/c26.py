"""C26 — context is inherited and overridden as documented.

Monitor: generated job trees (template task ctx_tree) read the context at every job through
get_context(path, default) and through an expression-valued default argument; every level may carry
update_context overrides (dict form, kwargs form, chained calls, mapping replaced by scalar and back).
Oracle: an independent deep-merge + dotted-path model (vlib.wf.merge_ctx / ctx_lookup inside the
reference interpreter).  Root context = configured context (scheduler.context or context_file) merged
with run(context=).
"""
import json
import os
import random
import tempfile

from redun import Scheduler
from redun.config import Config

from vlib import ctl, engine, wf

PROPERTY = "C26"
LEVEL = "exploration"
RULE = ("job trees of depth<=4, fan<=3; contexts drawn from nested dicts over keys {a,b,k,sub,x} with scalar, list "
        "and mapping values; overrides in dict / kwargs / chained form; paths incl. missing keys, paths through scalars, "
        "empty segments and the empty path; root context from config string, context_file and run(context=).  "
        "Non-trivial = distinct (tree, root contexts) with >=2 levels carrying overrides.")
ASSUMPTIONS = ["within one update_context call the dict form and the kwargs form use disjoint top-level keys"]

KEYS = ["a", "b", "k", "sub", "x"]


def gen_ctx(rnd, depth=2):
    out = {}
    for k in rnd.sample(KEYS, rnd.randint(0, 3)):
        r = rnd.random()
        if r < 0.45 or depth <= 0:
            out[k] = rnd.choice([0, 1, "s", None, True, [1, 2], ""])
        else:
            out[k] = gen_ctx(rnd, depth - 1)
    return out


def gen_path(rnd):
    n = rnd.randint(0, 3)
    parts = [rnd.choice(KEYS + ["missing", ""]) for _ in range(n)]
    return ".".join(parts)


def gen_spec(rnd, depth, stats):
    spec = {"reads": [[gen_path(rnd), rnd.choice([None, "dflt", 0])] for _ in range(rnd.randint(1, 3))],
            "children": [], "dflt": rnd.random() < 0.5}
    if spec["dflt"] and rnd.random() < 0.6:
        # the defaulted child carries its own override: its default must see the overridden context, not the parent's
        c1 = gen_ctx(rnd)
        if rnd.random() < 0.6:
            c1["k"] = {"sub": rnd.choice([1, 2, "over", None])}     # the path the default reads
        spec["dflt_opts"] = {"ctx": c1} if rnd.random() < 0.5 else {"ctx_kwargs": c1}
        stats["overrides"] += 1
        stats["dflt_overrides"] = stats.get("dflt_overrides", 0) + 1
    if depth > 0:
        for _ in range(rnd.randint(0, 3 if depth > 1 else 2)):
            opts = {}
            r = rnd.random()
            if r < 0.75:
                form = rnd.choice(["dict", "kwargs", "both", "chained"])
                c1 = gen_ctx(rnd)
                if form == "dict":
                    opts["ctx"] = c1
                elif form == "kwargs":
                    opts["ctx_kwargs"] = c1
                elif form == "both":
                    c2 = {k: v for k, v in gen_ctx(rnd).items() if k not in c1}
                    opts["ctx"], opts["ctx_kwargs"] = c1, c2
                else:
                    opts["ctx"], opts["ctx2"] = c1, gen_ctx(rnd)
                stats["overrides"] += 1
            spec["children"].append([opts, gen_spec(rnd, depth - 1, stats)])
    return spec


def run_case(ctx, rnd, where):
    stats = {"overrides": 0}
    depth = rnd.randint(1, 4)
    spec = gen_spec(rnd, depth, stats)
    cfg_ctx = gen_ctx(rnd) if rnd.random() < 0.7 else None
    run_ctx = gen_ctx(rnd) if rnd.random() < 0.6 else None
    root_opts = {}
    if rnd.random() < 0.4:
        root_opts["ctx"] = gen_ctx(rnd)
    ast = ["call", "ctx_tree", [["val", spec]], {}, root_opts]
    mode = rnd.choice(["string", "file"]) if cfg_ctx is not None else "none"
    root = wf.merge_ctx(cfg_ctx or {}, run_ctx or {})
    exp, _ = wf.expected_outcomes(ast, context=root)
    ctx.ev()
    d = None
    try:
        if mode == "file":
            d = tempfile.mkdtemp(prefix="verif_c26_")
            path = os.path.join(d, "context.json")
            with open(path, "w") as f:
                json.dump(cfg_ctx, f)
            config = Config(config_dict={"scheduler": {"context_file": path}})
        elif mode == "string":
            config = Config(config_dict={"scheduler": {"context": json.dumps(cfg_ctx).replace("$", "$$")}})
        else:
            config = Config()
        c = ctl.Controller(ctl.RandomChooser(rnd.randrange(1 << 30)))
        s = Scheduler(config=config, job_status_interval=None)
        s.load()
        c.attach(s)
        kw = {"context": run_ctx} if run_ctx is not None else {}
        out = c.run(s, wf.build(ast), **kw)
    finally:
        if d:
            import shutil
            shutil.rmtree(d, ignore_errors=True)
    key = engine.outcome_key(out)
    ctx.count("jobs_reading_context", len(c.job_order))
    ctx.count("config_mode_" + mode)
    if stats.get("dflt_overrides"):
        ctx.count("cases_with_overridden_defaulted_child")
    if stats["overrides"] >= 2:
        ctx.nontrivial([spec, cfg_ctx, run_ctx, root_opts])
    if key not in exp:
        ctx.violation("context-value-differs", "observed %r, model says %r" % (key, sorted(exp)),
                      {"spec": spec, "config_context": cfg_ctx, "run_context": run_ctx, "root_opts": root_opts,
                       "mode": mode, "where": where})
    return spec


def shard(ctx, n, sub):
    rnd = random.Random("%s-%s-c26" % (ctx.seed, sub))
    for i in range(n):
        spec = run_case(ctx, rnd, {"seed": ctx.seed, "sub": sub, "i": i})
        if i < 1:
            ctx.sample({"tree": spec})


def main(ctx):
    n = ctx.pick(14, 320)
    ctx.shards("shard", [{"n": n, "sub": s} for s in range(16)], timeout=ctx.pick(600, 3400))
    ctx.require("jobs_reading_context", 500)
    ctx.require("config_mode_file", 10)
    ctx.require("config_mode_string", 10)


def replay(ctx, witness):
    w = witness["where"]
    from vlib.core import Ctx
    rnd = random.Random("%s-%s-c26" % (w["seed"], w["sub"]))
    for i in range(w["i"] + 1):
        run_case(ctx if i == w["i"] else Ctx("C26", "quick", w["seed"]), rnd, w)
