#!/venv/bin/python
"""tools/seed_recheck.py [NAME...] : re-run the registered checks against each kept seeded change in /verif/seeded and
update meta.json ("checks", "detected_by").  Checks to run come from meta["run_checks"] or default to the property id."""
import json
import os
import shutil
import subprocess
import sys
import tempfile

names = sys.argv[1:] or sorted(os.listdir("/verif/seeded"))
for name in names:
    d = os.path.join("/verif/seeded", name)
    meta = json.load(open(os.path.join(d, "meta.json")))
    checks = meta.get("run_checks") or [meta.get("property", name)]
    wt = tempfile.mkdtemp(prefix="seedwt.", dir="/tmp")
    os.rmdir(wt)
    subprocess.check_call(["git", "-C", "/repo", "worktree", "add", "-q", "--detach", wt, "HEAD"])
    try:
        ap = subprocess.run(["git", "-C", wt, "apply", "--3way", os.path.join(d, "patch.diff")], stdout=subprocess.PIPE,
                            stderr=subprocess.STDOUT, text=True)
        if ap.returncode != 0:
            print(name, "PATCH DOES NOT APPLY ON CURRENT HEAD")
            meta["applies_on_head"] = False
        else:
            meta["applies_on_head"] = True
            save = tempfile.mkdtemp(prefix="evsave.", dir="/tmp")
            res = {}
            for c in checks:
                r = subprocess.run(["/verif/check", c], env=dict(os.environ, VERIF_REPO=wt, VERIF_OUT_DIR=save), stdout=subprocess.PIPE,
                                   stderr=subprocess.STDOUT, text=True)
                lines = [l for l in r.stdout.splitlines() if l.startswith(("VIOLATION", "KNOWN", "INCONCLUSIVE", "  mechanism")) or " tier=" in l]
                res[c] = {"exit": r.returncode, "lines": [l[:300] for l in lines][:8]}
            shutil.rmtree(save)
            meta.setdefault("confirmation", {})["checks"] = res
            meta["detected_by"] = [c for c, v in res.items() if v["exit"] == 1]
            meta["rechecked_at_repo_commit"] = subprocess.check_output(["git", "-C", "/repo", "rev-parse", "--short", "HEAD"], text=True).strip()
            print(name, "detected_by", meta["detected_by"])
        json.dump(meta, open(os.path.join(d, "meta.json"), "w"), indent=1)
    finally:
        subprocess.call(["git", "-C", "/repo", "worktree", "remove", "--force", wt])
