"""C28 — dry runs execute nothing and predict the real run.

Monitor: for generated programs and backend histories (empty, partially cached, fully cached, after
code edits, after argument changes, after input-file invalidation) a byte copy of the database is taken,
then `run(dryrun=True)` is observed at the executor boundary (SUBMIT events) and inside task bodies
(invocation log); the real run is executed on the copy.  Oracle: zero submissions/invocations in the dry
run; if it returned, the value equals the real run's value; if it stopped early (DryRunResult) the real
run invokes at least one task function.
"""
import os
import random
import shutil
import tempfile

from redun import File
from redun.scheduler import DryRunResult

from vlib import ctl, engine, hist, trace
from vlib.checks import c02, c22

PROPERTY = "C28"
LEVEL = "exploration"
RULE = ("program families of C02 (vh tasks incl. catch, failures, File inputs/outputs) x backend histories of 0-4 "
        "prior executions with edits / argument changes / file rewrites in between; then dry run vs real run on a byte "
        "copy.  Non-trivial = distinct (family, history) whose dry run met a partially cached backend (>=1 cached job "
        "and >=1 job that would run).")
ASSUMPTIONS = ["SQLite file backend so that a byte copy of the pre-dry-run state exists"]


from vlib import wf_tasks as _wt  # noqa: E402

W_COUNT = _wt.TASKS["count_errs"]


def run_case(ctx, rnd, where):
    d = tempfile.mkdtemp(prefix="verif_c28_")
    try:
        family = rnd.choice(c02.FAMILIES)
        cfg = {n: {"variant": rnd.randrange(hist.NVARIANTS[n]), "versioned": rnd.random() < 0.3} for n in hist.BODY}
        if rnd.random() < 0.3:
            cfg[rnd.choice(["mid", "top"])]["options"] = {"check_valid": "shallow"}
        hist.reset(cfg)
        world = c02.World(rnd, family, d)
        # a job that can never be submitted (its executor option names no configured executor): a real run rejects it
        # without executing anything, so a dry run must not count it as work that "would run"
        bad = rnd.choice([None, None, None, "uncaught", "caught", "caught_all", "caught_all"])

        def expr():
            e = world.expr(False)
            if bad is None:
                return e
            from redun.functools import const  # noqa: F401
            from redun.scheduler import SchedulerError, catch
            b = hist.T["leafA"].options(executor="no_such_executor")(977)
            if bad == "caught":
                b = catch(b, SchedulerError, hist.T["recover"])
            elif bad == "caught_all":
                # catch_all does not cache its own evaluation: the rejected job is created again in every execution,
                # while the recovery call is a task call and is replayed from the cache
                from redun.scheduler import catch_all
                b = catch_all([b, 3], SchedulerError, W_COUNT)
            return [e, b]
        path = os.path.join(d, "r.db")
        backend = c22.open_backend(path)
        past = {}
        steps = []
        nprior = rnd.randint(1 if bad else 0, 4)
        try:
            for i in range(nprior):
                hist.run(expr, backend)
                st = c02.gen_step(rnd, world, past) if not (bad and i == nprior - 1 and rnd.random() < 0.85) else ["nothing"]
                c02.apply_step(st, world, past)
                steps.append(st)
        finally:
            hist.close_backend(backend)
        cp = os.path.join(d, "copy.db")
        shutil.copy(path, cp)
        # dry run on the original
        backend = c22.open_backend(path)
        try:
            trace.reset()
            out, c, s = engine.run_controlled(expr(), ctl.RandomChooser(rnd.randrange(1 << 30)), backend=backend,
                                              dryrun=True)
            dry_calls = trace.snapshot()
            dry_submits = len(c.submits)
            cached_jobs = sum(1 for j in c.job_order if c.jobs[j].get("status_was_cached"))
        finally:
            hist.close_backend(backend)
        wit = {"family": family, "steps": steps, "prior_executions": nprior, "unsubmittable_job": bad, "where": where}
        if bad:
            ctx.count("cases_with_unsubmittable_job")
        ctx.ev()
        ctx.count("dry_runs")
        if dry_submits or dry_calls:
            ctx.violation("dry-run-executed-something", "dry run submitted %d job(s) and invoked %r" % (dry_submits, dry_calls[:3]), wit)
        # real run on the copy
        backend = c22.open_backend(cp)
        try:
            key, rout, calls, c2 = hist.run(expr, backend)
        finally:
            hist.close_backend(backend)
        if out[0] == "v":
            ctx.count("dry_runs_completed")
            if engine.outcome_key(out) != key:
                ctx.violation("dry-run-mispredicts-value", "dry run returned %r, the real run on the same backend returns %r" % (
                    engine.outcome_key(out), key), wit)
            if calls or c2.submits:
                ctx.count("completed_dry_run_but_real_run_executed_tasks")
                ctx.violation("dry-run-completed-but-real-run-executes", "dry run completed, yet the real run invoked %r" % (calls[:3],), wit)
        elif out[0] == "e" and isinstance(out[1], DryRunResult):
            ctx.count("dry_runs_stopped_early")
            if cached_jobs:
                ctx.nontrivial([family, steps, cfg])
                ctx.count("dry_runs_on_partially_cached_backend")
            # "a real run would execute at least one task": any job handed to an executor counts (also redun's own
            # root task for a top-level expression that was never evaluated as a whole before)
            if not calls and not c2.submits:
                ctx.violation("dry-run-stopped-but-real-run-executes-nothing", "dry run reported additional jobs would run, but "
                              "the real run invoked no task function (result %r)" % (key,), wit)
        elif out[0] == "e":
            # a dry run may also surface an error that the real run raises (e.g. a cached failure path)
            ctx.count("dry_runs_raised")
            if key[0] != "e" or key[1] != type(out[1]).__name__:
                ctx.violation("dry-run-raised-differently", "dry run raised %r, real run gives %r" % (engine.outcome_key(out), key), wit)
        else:
            ctx.violation("dry-run-did-not-terminate", "dry run outcome %r" % (out[0],), wit)
        if nprior >= 1 and out[0] == "v":
            ctx.nontrivial([family, steps, cfg, "full"])
    finally:
        shutil.rmtree(d, ignore_errors=True)


def shard(ctx, n, sub):
    rnd = random.Random("%s-%s-c28" % (ctx.seed, sub))
    for i in range(n):
        run_case(ctx, rnd, {"seed": ctx.seed, "sub": sub, "i": i})
    ctx.sample({"families": c02.FAMILIES})


def main(ctx):
    n = ctx.pick(10, 150)
    ctx.shards("shard", [{"n": n, "sub": s} for s in range(16)], timeout=ctx.pick(600, 3400))
    ctx.require("dry_runs", 100)
    ctx.require("dry_runs_completed", 15)
    ctx.require("dry_runs_stopped_early", 30)
    ctx.require("dry_runs_on_partially_cached_backend", 10)


def replay(ctx, witness):
    w = witness["where"]
    from vlib.core import Ctx
    rnd = random.Random("%s-%s-c28" % (w["seed"], w["sub"]))
    for i in range(w["i"] + 1):
        run_case(ctx if i == w["i"] else Ctx("C28", "quick", w["seed"]), rnd, w)
