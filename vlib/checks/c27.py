"""C27 — task options follow the documented precedence.

Monitor: job.get_options() is captured at SUBMIT (executor boundary) for every job of generated job
trees whose tasks set probe options at definition time, at call time (.options), through exported
options (.export_options, @task(export_options=), with_export_options) and as expressions.  Oracle: an
independent model of the precedence chain: definition < exported by ancestors (names accumulate
downwards) < call-time < imposed by the scheduler (cache=False run => cache_scope=CSE; no provenance =>
prov=False and cache_scope=NONE).
"""
import random

from redun import task
from redun.expression import quote
from redun.scheduler import with_export_options
from redun.task import CacheScope

from vlib import ctl, engine, trace, wf_tasks

PROPERTY = "C27"
LEVEL = "exploration"
RULE = ("job trees (depth<=4, fan<=3) over 5 task definitions with different definition options / exported definition "
        "options / prov=False, each call optionally carrying call-time options, call-time exported options, "
        "with_export_options wrappers and expression-valued option values; runs with cache on and off.  Non-trivial = "
        "distinct tree in which some probe key is set at >=2 different levels on one root-to-leaf path.")
ASSUMPTIONS = ["probe option names p1..p4 have no meaning to the scheduler; prov and cache_scope are observed as imposed"]

PROBES = ["p1", "p2", "p3", "p4"]
T = {}
DEFS = {
    "o0": {"base": {}, "export": {}},
    "o1": {"base": {"p1": "def-o1"}, "export": {}},
    "o2": {"base": {"p1": "def-o2", "p2": "def-o2"}, "export": {}},
    "o3": {"base": {"p4": "def-o3"}, "export": {"p3": "defexp-o3"}},
    "o4": {"base": {"p2": "def-o4", "prov": False}, "export": {}},
}


def build_children(spec):
    out = []
    for ch in spec.get("children", []):
        out.append(build_call(ch))
    return out


def build_call(node):
    t = T[node["task"]]
    call = {k: (wf_tasks.TASKS["inc"](v[1]) if isinstance(v, list) else v) for k, v in node.get("call", {}).items()}
    if call:
        t = t.options(**call)
    if node.get("export"):
        t = t.export_options(**node["export"])
    expr = t(node)
    if node.get("with_export"):
        expr = with_export_options(quote(expr), node["with_export"])
    return expr


def _make(name):
    d = DEFS[name]

    def body(spec):
        trace.enter(name, spec["nid"])
        return build_children(spec)
    body.__name__ = name
    body.__module__ = __name__
    kw = dict(d["base"])
    if d["export"]:
        kw["export_options"] = dict(d["export"])
    T[name] = task(name=name, namespace="c27", source="c27:%s" % name, **kw)(body)


for _n in DEFS:
    _make(_n)


def gen_node(rnd, depth, counter):
    counter[0] += 1
    node = {"nid": counter[0], "task": rnd.choice(list(DEFS)), "children": []}
    if rnd.random() < 0.5:
        node["call"] = {}
        for k in rnd.sample(PROBES, rnd.randint(1, 2)):
            node["call"][k] = ["expr", rnd.randint(0, 3)] if rnd.random() < 0.3 else "call-%d" % counter[0]
    if rnd.random() < 0.35:
        node["export"] = {k: "exp-%d" % counter[0] for k in rnd.sample(PROBES, rnd.randint(1, 2))}
    if rnd.random() < 0.2:
        node["with_export"] = {k: "wexp-%d" % counter[0] for k in rnd.sample(PROBES, rnd.randint(1, 2))}
    if depth > 0:
        for _ in range(rnd.randint(0, 3 if depth > 1 else 2)):
            node["children"].append(gen_node(rnd, depth - 1, counter))
    return node


def model(node, parent_opts, parent_export, parent_prov, use_cache, out, path_levels):
    """parent_opts: effective options of the parent job; parent_export: names it exports."""
    inherited = {k: v for k, v in parent_opts.items() if k in parent_export}
    if node.get("with_export"):
        # intermediate job redun.with_export_options: call-time options = the exported ones
        w = dict(inherited)
        w.update(node["with_export"])
        wexport = set(parent_export) | set(node["with_export"])
        if not parent_prov:
            w["prov"] = False
        parent_opts, parent_export, inherited = w, wexport, {k: v for k, v in w.items() if k in wexport}
    d = DEFS[node["task"]]
    opts = dict(d["base"])
    opts.update(d["export"])
    opts.update(inherited)
    call = {k: (v[1] + 1 if isinstance(v, list) else v) for k, v in node.get("call", {}).items()}
    opts.update(call)
    opts.update(node.get("export", {}))
    export = set(parent_export) | set(d["export"]) | set(node.get("export", {}))
    if "prov" in d["base"]:
        export.add("prov")
    if not use_cache:
        opts["cache_scope"] = CacheScope.CSE
    if not parent_prov:
        opts["prov"] = False
    prov = opts.get("prov", True)
    if not prov:
        opts["cache_scope"] = CacheScope.NONE
    out[node["nid"]] = {k: opts.get(k) for k in PROBES + ["prov", "cache_scope"]}
    levels = dict(path_levels)
    for k in PROBES:
        if k in d["base"] or k in d["export"] or k in call or k in node.get("export", {}) or k in (node.get("with_export") or {}):
            levels[k] = levels.get(k, 0) + 1
    deepest = max(levels.values()) if levels else 0
    for ch in node["children"]:
        deepest = max(deepest, model(ch, opts, export, prov, use_cache, out, levels))
    return deepest


def run_case(ctx, rnd, backend, where):
    counter = [0]
    root = gen_node(rnd, rnd.randint(1, 4), counter)
    use_cache = rnd.random() < 0.7
    expected = {}
    deepest = model(root, {}, set(), True, use_cache, expected, {})
    ctx.ev()
    if deepest >= 2:
        ctx.nontrivial(root)
    out, c, s = engine.run_controlled(build_call(root), ctl.RandomChooser(rnd.randrange(1 << 30)), backend=backend,
                                      cache=use_cache)
    wit = {"tree": root, "cache": use_cache, "where": where}
    if out[0] != "v":
        if out[0] == "e" and engine.is_db_failure(out[1]):
            return engine.new_backend()
        ctx.violation("run-failed", "run did not return: %r" % (engine.outcome_key(out),), wit)
        return backend
    seen = set()
    for sb in c.submits:
        if not sb["task"].startswith("c27."):
            continue
        nid = sb["args"][0][0]["nid"]
        seen.add(nid)
        got = {k: sb["options"].get(k) for k in PROBES + ["prov", "cache_scope"]}
        exp = dict(expected[nid])
        ctx.count("jobs_compared")
        # normalise defaults: absent prov == True; absent cache_scope == None
        if exp["prov"] is None:
            exp["prov"] = got["prov"] if got["prov"] in (None, True) else exp["prov"]
        if got != exp:
            diff = {k: (got[k], exp[k]) for k in got if got[k] != exp[k]}
            kind = "imposed-setting" if set(diff) <= {"prov", "cache_scope"} else "probe-option"
            ctx.violation("options-differ:" + kind, "job nid=%s task=%s: (observed, model) %r" % (nid, sb["task"], diff), wit)
        if any(isinstance(v, list) for v in (find(root, nid).get("call") or {}).values()):
            ctx.count("expression_valued_options_checked")
    # with caching on, duplicate-free trees submit every node exactly once
    missing = set(expected) - seen
    if missing and not use_cache is False:
        ctx.count("nodes_not_submitted", len(missing))
    return backend


def find(node, nid):
    if node["nid"] == nid:
        return node
    for ch in node["children"]:
        r = find(ch, nid)
        if r:
            return r
    return None


def shard(ctx, n, sub):
    rnd = random.Random("%s-%s-c27" % (ctx.seed, sub))
    backend = engine.new_backend()
    for i in range(n):
        backend = run_case(ctx, rnd, backend, {"seed": ctx.seed, "sub": sub, "i": i})
    ctx.sample({"definitions": DEFS})


def main(ctx):
    n = ctx.pick(14, 2500)
    ctx.shards("shard", [{"n": n, "sub": s} for s in range(16)], timeout=ctx.pick(600, 3400))
    ctx.require("jobs_compared", 500)
    ctx.require("expression_valued_options_checked", 20)


def replay(ctx, witness):
    w = witness["where"]
    from vlib.core import Ctx
    rnd = random.Random("%s-%s-c27" % (w["seed"], w["sub"]))
    backend = engine.new_backend()
    for i in range(w["i"] + 1):
        backend = run_case(ctx if i == w["i"] else Ctx("C27", "quick", w["seed"]), rnd, backend, w)
