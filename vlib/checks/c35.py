"""C35 — configuration survives conversion to a dictionary and back."""
import os
import random

from redun.config import Config

PROPERTY = "C35"
LEVEL = "exploration"
RULE = ("seeded INI texts: 1-5 sections with dotted names (shared prefixes), 0-5 case-sensitive keys, values "
        "from {plain, spaces, escaped dollars, ${key}/${sec:key}/${ENV} interpolations, percent signs, "
        "multi-line, = : # ; characters, config-dir paths}; non-trivial = distinct text with >=2 sections "
        "or a special value class")
ASSUMPTIONS = ["effective value = what section[key] returns (after interpolation)",
               "REDUN_CONFIG is set by the check so that the local config dir is a known path"]

SECTION_NAMES = ["backend", "executors.default", "executors.batch", "executors.batch.extra", "scheduler",
                 "repos.default", "limits", "a", "a.b", "a.b.c", "x.y", "Tags"]
KEYS = ["db_uri", "config_dir", "type", "role", "Role", "k", "K", "image", "max_workers", "path"]


def gen_value(rnd, known, cfgdir):
    r = rnd.random()
    if r < 0.25:
        return rnd.choice(["abc", "1", "true", "a b c", "", "sqlite:///redun.db", "x=y", "a:b", "a;b #c",
                           "100%", "%(x)s", "%%", "é\U0001f600"]), "plain"
    if r < 0.45:
        return rnd.choice(["x$$y", "$$", "$$HOME", "cost $$5", "$${not}", "a$$b$$c"]), "dollar"
    if r < 0.6 and known:
        sec, key = rnd.choice(known)
        return rnd.choice(["${%s:%s}" % (sec, key), "pre-${%s:%s}-post" % (sec, key)]), "interp"
    if r < 0.7:
        return rnd.choice(["${VERIF_ENV_A}", "p/${VERIF_ENV_B}/q"]), "env"
    if r < 0.85:
        return rnd.choice([cfgdir, cfgdir + "/redun.db", "sqlite:///" + cfgdir + "/redun.db",
                           cfgdir + ":" + cfgdir, os.path.dirname(cfgdir), "${VERIF_CFG}/db",
                           # the config dir and a literal dollar in one value
                           cfgdir + "/cost-$$5", cfgdir + "/reports/$${VERIF_ENV_A}.html", "$$" + cfgdir + "$$",
                           "${VERIF_CFG}/$$x"]), "cfgdir"
    return rnd.choice(["line1\n  line2", "a\n  b\n  c"]), "multiline"


def gen_ini(rnd, cfgdir):
    nsec = rnd.randint(1, 5)
    names = rnd.sample(SECTION_NAMES, nsec)
    known, lines, classes = [], [], set()
    for sec in names:
        lines.append("[%s]" % sec)
        for key in rnd.sample(KEYS, rnd.randint(0, 5)):
            val, cls = gen_value(rnd, known, cfgdir)
            classes.add(cls)
            lines.append("%s = %s" % (key, val))
            known.append((sec, key))
        lines.append("")
    return "\n".join(lines), sorted(classes), nsec


def tree(config):
    """(section path tuple) -> {key: effective value or ('error', type)}"""
    out = {}

    def walk(path, obj):
        if hasattr(obj, "parser") and hasattr(obj, "name"):  # SectionProxy
            d = {}
            for k in obj.keys():
                try:
                    d[k] = obj[k]
                except Exception as e:
                    d[k] = ("error", type(e).__name__)
            out[path] = d
            return
        for key in obj.keys():
            walk(path + (key,), obj[key])
    walk((), config)
    return out


def classify(original_tree, exc_or_diff):
    """A round-trip failure is attributed to the literal-dollar mechanism only if some effective
    value of the original contains a '$' (i.e. an escaped dollar survived interpolation)."""
    for d in original_tree.values():
        for v in d.values():
            if isinstance(v, str) and "$" in v:
                return "literal-dollar-reinterpolated"
    return "unclassified"


def run_case(ctx, text, cfgdir):
    ctx.ev()
    c1 = Config()
    try:
        c1.read_string(text)
    except Exception:
        ctx.count("generated_text_rejected")
        return
    t1 = tree(c1)
    if any(isinstance(v, tuple) for d in t1.values() for v in d.values()):
        ctx.count("original_has_interpolation_error")  # not a config the property speaks about
        return
    ctx.count("configs_converted")
    try:
        d = c1.get_config_dict()
        c2 = Config(config_dict=d)
        t2 = tree(c2)
    except Exception as e:
        ctx.violation(classify(t1, e), "round trip raised %r" % (e,), {"ini": text, "cfgdir": cfgdir})
        return
    if t1 != t2:
        diff = {".".join(p): (t1.get(p), t2.get(p)) for p in set(t1) | set(t2) if t1.get(p) != t2.get(p)}
        ctx.violation(classify(t1, diff), "effective values differ after round trip: %r" % (diff,),
                      {"ini": text, "cfgdir": cfgdir})
    ctx.count("values_compared", sum(len(x) for x in t1.values()))
    # replace_config_dir: observed on the effective values of the configuration rebuilt from the dict
    repl = "/REPLACED"
    try:
        d2 = c1.get_config_dict(replace_config_dir=repl)
        t3 = tree(Config(config_dict=d2))
    except Exception as e:
        ctx.violation(classify(t1, e), "round trip with replace_config_dir raised %r" % (e,), {"ini": text, "cfgdir": cfgdir})
        return
    for path, vals in t1.items():
        got = t3.get(path)
        if got is None or set(got) != set(vals):
            ctx.violation("replace-config-dir-structure", "section %r keys differ" % (path,), {"ini": text, "cfgdir": cfgdir})
            continue
        for k, v in vals.items():
            exp = v.replace(cfgdir, repl) if cfgdir in v else v
            if cfgdir in v:
                ctx.count("config_dir_values_rewritten")
            else:
                ctx.count("config_dir_values_untouched")
            if got[k] != exp:
                ctx.violation(classify(t1, None) if "$" in v else "replace-config-dir-value",
                              "%r.%s: %r -> %r expected %r" % (path, k, v, got[k], exp), {"ini": text, "cfgdir": cfgdir})


def shard(ctx, n, sub):
    rnd = random.Random("%s-%s-c35" % (ctx.seed, sub))
    cfgdir = "/verif_cfg_%d/.redun" % sub
    os.environ["REDUN_CONFIG"] = cfgdir
    os.environ["VERIF_ENV_A"] = "envA"
    os.environ["VERIF_ENV_B"] = "env B"
    os.environ["VERIF_CFG"] = cfgdir
    for i in range(n):
        text, classes, nsec = gen_ini(rnd, cfgdir)
        run_case(ctx, text, cfgdir)
        if nsec >= 2 or set(classes) - {"plain"}:
            ctx.nontrivial(text)
        for c in classes:
            ctx.count("class_" + c)
        if i < 3:
            ctx.sample({"ini": text})


def main(ctx):
    n = ctx.pick(300, 50000)
    ctx.shards("shard", [{"n": n, "sub": s} for s in range(16)])
    ctx.require("configs_converted", 1000)
    ctx.require("config_dir_values_rewritten", 50)
    ctx.require("class_dollar", 50)
    ctx.require("class_interp", 50)


def replay(ctx, witness):
    os.environ["REDUN_CONFIG"] = witness.get("cfgdir", "/x")
    os.environ["VERIF_ENV_A"] = "envA"
    os.environ["VERIF_ENV_B"] = "env B"
    os.environ["VERIF_CFG"] = witness.get("cfgdir", "/x")
    print(witness["ini"])
    run_case(ctx, witness["ini"], witness.get("cfgdir", "/x"))
