"""Per-process call log: the 'task function was invoked' event, recorded from inside task bodies."""
import os
import threading

_lock = threading.Lock()
CALLS = []  # (task name, repr(args)) in invocation order (this process only)
_file = os.environ.get("VERIF_TRACE_FILE")


def enter(name, *args):
    with _lock:
        CALLS.append((name, repr(args)))
        if _file:
            # cross-process log for process-pool workers (append is atomic for short lines)
            with open(_file, "a") as f:
                f.write("%s\t%r\n" % (name, args))


def reset():
    with _lock:
        del CALLS[:]


def count(name=None):
    with _lock:
        if name is None:
            return len(CALLS)
        return sum(1 for n, _ in CALLS if n == name)


def snapshot():
    with _lock:
        return list(CALLS)
