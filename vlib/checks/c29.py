"""C29 — script tasks run exactly the given command with correct staging.

Monitors on real executions: (1) generated command texts whose first line is the shebang `#!/bin/cat`
are run through redun's own exec_script / get_wrapped_command / script_task path; the interpreter is cat,
so stdout is exactly the bytes of the temp file that was executed and must equal dedent(cmd).strip()
(plus the newline the heredoc adds); (2) without shebang a marker proves the default shell ran the
dedented text; (3) the heredoc terminator is never a line of the command; (4) script() with generated
staging structures: inputs exist locally when the command runs, outputs exist remotely afterwards with
the produced content, and the result has the shape of `outputs` with Staging -> remote File/Dir and
File('-') -> stdout.
"""
import os
import random
import shutil
import subprocess
import tempfile
from textwrap import dedent

from redun import File, Scheduler
from redun.file import Dir, StagingDir, StagingFile
from redun.scripting import exec_script, get_command_eof, get_wrapped_command, prepare_command, script, script_task

from vlib import engine
from vlib.wf import canon

PROPERTY = "C29"
LEVEL = "exploration"
RULE = ("command texts from line pools (EOF, EOF1.., quotes, dollar signs, backslashes, backticks, heredoc markers, blank "
        "lines, unicode, indentation incl. common leading indent) with and without shebang; staging structures: lists / "
        "dicts / tuples of StagingFile, StagingDir, plain File outputs and File('-').  Non-trivial = distinct command "
        "containing a line equal to a candidate terminator or a shell metacharacter, or a staging structure with >=2 "
        "entries.")
ASSUMPTIONS = ["local executor, /bin/sh and /bin/cat present", "command texts contain no NUL bytes"]

LINES = ["EOF", "EOF1", "EOF2", "EOF ", " EOF", "echo $HOME", "a \"quoted\" 'line'", "back\\slash \\n", "`backtick`", "$(subshell)",
         "", "   ", "cat <<EOF", "é ü 😀", "x=1; y=$x", "#comment", "\ttabbed", "trailing  ", "!bang", "{braces}", "%percent%",
         "EOF3", "done", "exit 3", "'", '"']


def gen_command(rnd):
    n = rnd.randint(1, 8)
    body = [rnd.choice(LINES) for _ in range(n)]
    if rnd.random() < 0.4:
        body += ["EOF", "EOF1"][: rnd.randint(1, 2)]
    indent = rnd.choice(["", "    ", "\t"])
    return body, indent


def run_cat(ctx, rnd, where):
    """Shebang command: interpreter is cat, stdout = the exact script text that was executed."""
    body, indent = gen_command(rnd)
    lines = ["#!/bin/cat"] + body
    text = "\n" + "\n".join(indent + ln for ln in lines) + "\n  \n"
    expected_script = dedent(text).strip()
    wit = {"command": text, "where": where}
    ctx.ev()
    special = any(ln.strip().startswith("EOF") for ln in body) or any(ch in "".join(body) for ch in "$`\\\"'")
    if special:
        ctx.nontrivial(text)
    prepared = prepare_command(text)
    if prepared != expected_script:
        ctx.violation("prepared-command-differs", "prepare_command gives %r, expected %r" % (prepared, expected_script), wit)
        return
    # (a) direct script execution as the local executor does
    try:
        out = exec_script(prepared)
    except Exception as e:
        ctx.violation("exec-script-raised", "%r" % (e,), wit)
        return
    ctx.count("scripts_executed")
    if out.decode("utf8") != expected_script:
        ctx.violation("executed-text-differs", "script file contained %r, expected %r" % (out.decode("utf8"), expected_script), wit)
    # (b) through the heredoc wrapper used by script()
    eof = get_command_eof(prepared)
    if eof in prepared.split("\n"):
        ctx.violation("heredoc-terminator-is-a-command-line", "terminator %r occurs as a line" % eof, wit)
    ctx.count("terminators_checked")
    wrapped = get_wrapped_command(prepared)
    p = subprocess.run(["/bin/sh", "-c", wrapped], stdout=subprocess.PIPE, stderr=subprocess.PIPE)
    ctx.count("wrapped_scripts_executed")
    if p.returncode != 0:
        ctx.violation("wrapped-command-failed", "rc=%d stderr=%r" % (p.returncode, p.stderr[-300:]), wit)
    elif p.stdout.decode("utf8") != expected_script + "\n":
        ctx.violation("heredoc-does-not-reproduce-command", "wrapper wrote %r, expected %r" % (p.stdout.decode("utf8"), expected_script + "\n"), wit)


def run_shell(ctx, rnd, sched, where):
    """No shebang: the default shell header is prepended; markers prove which text ran."""
    k = rnd.randint(0, 10 ** 6)
    indent = rnd.choice(["", "      "])
    payload = rnd.choice(["plain", "a b  c", "q'uote", 'd"q', "$notexpanded", "back\\slash", "é😀", "EOF"])
    text = "\n".join(indent + ln for ln in ["echo MARK-%d" % k, "printf '%%s\\n' %s" % _shquote(payload), "echo \"$0\" > /dev/null",
                                            "echo END-%d" % k]) + "\n"
    wit = {"command": text, "where": where}
    ctx.ev()
    try:
        out = sched.run(script_task(text))
    except Exception as e:
        ctx.violation("script-task-raised", "%r" % (e,), wit)
        return
    ctx.count("script_tasks_executed")
    exp = "MARK-%d\n%s\nEND-%d\n" % (k, payload, k)
    got = out.decode("utf8") if isinstance(out, bytes) else out
    if got != exp:
        ctx.violation("default-shell-output-differs", "stdout %r, expected %r" % (got, exp), wit)
    # set -e semantics of the default shell: a failing line stops the script
    bad = "echo before\nfalse\necho after\n"
    try:
        sched.run(script_task(bad + "# %d" % k))
        ctx.violation("default-shell-not-errexit", "a failing line did not fail the script task", wit)
    except Exception as e:
        if type(e).__name__ != "ScriptError":
            ctx.violation("unexpected-error-type", "%r" % (e,), wit)
        ctx.count("errexit_checked")


def _shquote(s):
    import shlex
    return shlex.quote(s)


def run_staging(ctx, rnd, sched, where):
    d = tempfile.mkdtemp(prefix="verif_c29_")
    cwd = os.getcwd()
    try:
        remote, local = os.path.join(d, "remote"), os.path.join(d, "local")
        os.makedirs(remote)
        os.makedirs(local)
        os.chdir(local)
        k = rnd.randint(0, 10 ** 6)
        n_in, n_out = rnd.randint(0, 3), rnd.randint(1, 3)
        inputs, checks = [], []
        for i in range(n_in):
            rp = os.path.join(remote, "in%d.txt" % i)
            with open(rp, "w") as f:
                f.write("input-%d-%d" % (i, k))
            lp = os.path.join(local, "stagein%d.txt" % i)
            inputs.append(File(rp).stage(lp))
            checks.append("test \"$(cat %s)\" = \"input-%d-%d\"" % (lp, i, k))
        in_dir = None
        if rnd.random() < 0.4:
            rd = os.path.join(remote, "indir")
            os.makedirs(os.path.join(rd, "s"))
            with open(os.path.join(rd, "s", "x.txt"), "w") as f:
                f.write("dirinput-%d" % k)
            ld = os.path.join(local, "stageindir")
            in_dir = Dir(rd).stage(ld)
            checks.append("test \"$(cat %s/s/x.txt)\" = \"dirinput-%d\"" % (ld, k))
        in_struct = {"files": inputs, "dir": in_dir} if in_dir else (inputs if rnd.random() < 0.5 else tuple(inputs))
        outs, writes, expect = [], [], {}
        for i in range(n_out):
            kind = rnd.choice(["staged", "staged", "self", "stdout", "dir"])
            if kind == "staged":
                lp, rp = os.path.join(local, "out%d.txt" % i), os.path.join(remote, "out%d.txt" % i)
                outs.append(File(rp).stage(lp))
                writes.append("printf 'out-%d-%d' > %s" % (i, k, lp))
                expect[rp] = "out-%d-%d" % (i, k)
            elif kind == "self":
                rp = os.path.join(remote, "self%d.txt" % i)
                outs.append(File(rp))
                writes.append("printf 'self-%d-%d' > %s" % (i, k, rp))
                expect[rp] = "self-%d-%d" % (i, k)
            elif kind == "dir":
                ld, rd = os.path.join(local, "outdir%d" % i), os.path.join(remote, "outdir%d" % i)
                outs.append(Dir(rd).stage(ld))
                writes.append("mkdir -p %s/n && printf 'd-%d-%d' > %s/n/f.txt" % (ld, i, k, ld))
                expect[os.path.join(rd, "n", "f.txt")] = "d-%d-%d" % (i, k)
            else:
                outs.append(File("-"))
        shape = rnd.choice(["list", "dict", "tuple", "nested"])
        if shape == "list":
            out_struct = list(outs)
        elif shape == "tuple":
            out_struct = tuple(outs)
        elif shape == "dict":
            out_struct = {"o%d" % i: o for i, o in enumerate(outs)}
        else:
            out_struct = {"a": [outs[0]], "rest": tuple(outs[1:]), "const": 5}
        command = "\n".join(checks + writes + ["echo STDOUT-%d" % k])
        wit = {"inputs": n_in, "outputs": [type(o).__name__ for o in outs], "shape": shape, "where": where}
        ctx.ev()
        if n_in + n_out >= 2:
            ctx.nontrivial([n_in, [type(o).__name__ for o in outs], shape, bool(in_dir)])
        try:
            res = sched.run(script(command, inputs=in_struct, outputs=out_struct))
        except Exception as e:
            ctx.violation("script-raised", "script() with staging raised %r" % (e,), wit)
            return
        ctx.count("staging_scripts_executed")
        for rp, content in expect.items():
            ctx.count("outputs_checked")
            if not os.path.exists(rp) or open(rp).read() != content:
                ctx.violation("output-not-unstaged", "remote output %s missing or wrong" % os.path.basename(rp), wit)

        def exp_value(o):
            if isinstance(o, File) and o.path == "-":
                return ("stdout", None)
            if isinstance(o, StagingFile):
                return ("File", o.remote.path)
            if isinstance(o, StagingDir):
                return ("Dir", o.remote.path)
            if isinstance(o, File):
                return ("File", o.path)
            return ("const", o)

        def got_value(v):
            if isinstance(v, bytes):
                return ("stdout", None) if v.decode().endswith("STDOUT-%d\n" % k) else ("bad-stdout", v)
            if isinstance(v, Dir):
                return ("Dir", v.path)
            if isinstance(v, File):
                return ("File", v.path)
            return ("const", v)
        from redun.utils import map_nested_value
        try:
            exp_shape = map_nested_value(exp_value, out_struct)
            got_shape = map_nested_value(got_value, res)
        except Exception as e:
            ctx.violation("result-shape-error", "%r" % (e,), wit)
            return
        if canon(exp_shape) != canon(got_shape):
            ctx.violation("result-shape-differs", "result %r, expected %r" % (got_shape, exp_shape), wit)
        ctx.count("result_shapes_compared")
    finally:
        os.chdir(cwd)
        shutil.rmtree(d, ignore_errors=True)


def shard(ctx, n_cat, n_shell, n_stage, sub):
    rnd = random.Random("%s-%s-c29" % (ctx.seed, sub))
    for i in range(n_cat):
        run_cat(ctx, rnd, {"seed": ctx.seed, "sub": sub, "i": i})
    sched = Scheduler()
    sched.load()
    import logging
    logging.disable(logging.CRITICAL)
    for i in range(n_shell):
        run_shell(ctx, rnd, sched, {"seed": ctx.seed, "sub": sub, "i": i})
    for i in range(n_stage):
        run_staging(ctx, rnd, sched, {"seed": ctx.seed, "sub": sub, "i": i})
    ctx.sample({"line_pool": LINES[:10]})


def main(ctx):
    a, b, c = ctx.pick((25, 4, 5), (1500, 150, 200))
    ctx.shards("shard", [{"n_cat": a, "n_shell": b, "n_stage": c, "sub": s} for s in range(16)], timeout=ctx.pick(600, 3400))
    ctx.require("scripts_executed", 300)
    ctx.require("wrapped_scripts_executed", 300)
    ctx.require("script_tasks_executed", 50)
    ctx.require("staging_scripts_executed", 50)
    ctx.require("result_shapes_compared", 50)


def replay(ctx, witness):
    print(witness)
