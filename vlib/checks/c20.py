"""C20 — recorded call graphs are a consistent Merkle record of the run.

Database auditor driven by the observed execution: after every execution (successful, failed, cached
replay) of generated programs the whole database is read back and compared with what the harness
observed at the job boundary (job tree, task/args hashes, results, provenance flags, tags requested).
"""
import json
import collections
import random

from redun.backends.db import CallEdge, CallNode, Execution, Job as JobRow, Subvalue, Tag, Value as ValueRow
from redun.hashing import hash_call_node

from vlib import ctl, engine, wf

PROPERTY = "C20"
LEVEL = "exploration"
RULE = ("C01's generated programs (failures, duplicates, apply_tags, no_prov subtrees, containers) executed 2-3 times "
        "on one backend under sampled schedules (so later executions replay cached work); after each execution every "
        "Job / CallNode / CallEdge / Execution / Value / Subvalue / Tag row is audited.  Non-trivial = distinct program "
        "with >=3 recorded jobs.")
ASSUMPTIONS = ["children of an executed job are the jobs the harness saw created with that parent, in creation order"]


def has_unordered(v, depth=0):
    """Does the value contain a set/frozenset below the top level (or a frozenset anywhere)?  Such values do not
    have a process-independent hash (the open C16 finding), so their rows are reported under that mechanism."""
    from redun.expression import ApplyExpression, QuotedExpression, ValueExpression
    import dataclasses
    if depth > 12:
        return False
    t = type(v)
    if t is frozenset or (t is set and depth > 0):
        return len(v) > 1 or any(has_unordered(x, depth + 1) for x in v)
    if t is set:
        return any(has_unordered(x, depth + 1) for x in v)
    if t in (list, tuple) or (isinstance(v, tuple) and hasattr(v, "_fields")):
        return any(has_unordered(x, depth + 1) for x in v)
    if t is dict:
        return any(has_unordered(k, depth + 1) or has_unordered(x, depth + 1) for k, x in v.items())
    if isinstance(v, QuotedExpression):
        return has_unordered(v._expr, depth + 1)
    if isinstance(v, ApplyExpression):
        return has_unordered(list(v.args), depth + 1) or has_unordered(v.kwargs, depth + 1)
    if isinstance(v, ValueExpression):
        return has_unordered(v.value, depth + 1)
    if dataclasses.is_dataclass(t) and not isinstance(v, type):
        return any(has_unordered(getattr(v, f.name), depth + 1) for f in dataclasses.fields(v))
    return False


def audit(ctx, c, s, out, ast, wit, tag_nodes, cand_values):
    ses = s.backend.session
    reg = s.type_registry
    ex_id = s._current_execution.id if s._current_execution else None
    jobs = [c.jobs[j] for j in c.job_order]
    if not jobs:
        return
    exec_id = jobs[0]["job"].execution.id if jobs[0]["job"].execution else None
    children = {}
    for info in jobs:
        children.setdefault(info["parent"], []).append(info)
    root = jobs[0]
    # 4. execution root
    erow = ses.query(Execution).filter_by(id=exec_id).one_or_none()
    if root.get("prov", True):
        if erow is None or erow.job_id != root["id"]:
            ctx.violation("execution-root-wrong", "execution.job_id=%r, observed root job %s" % (getattr(erow, "job_id", None), root["task"]), wit)
    for info in jobs:
        settled = "settled" in info
        row = ses.query(JobRow).filter_by(id=info["id"]).one_or_none()
        if not info.get("prov", True):
            # 7. no provenance => no rows
            if row is not None:
                ctx.violation("prov-false-job-recorded", "job %s ran without provenance but has a Job row" % info["task"], wit)
            ctx.count("noprov_jobs_checked")
            continue
        if not settled:
            continue  # cut short by a failure elsewhere
        ctx.count("jobs_audited")
        if row is None:
            ctx.violation("job-row-missing", "no Job row for settled job %s" % info["task"], wit)
            continue
        # 1. job row mirrors the observed job
        exp_parent = info["parent"]
        if row.parent_id != exp_parent:
            ctx.violation("job-parent-link-wrong", "job %s: parent_id %r, observed %r" % (info["task"], row.parent_id, exp_parent), wit)
        if row.execution_id != exec_id:
            ctx.violation("job-execution-wrong", "job %s in execution %r" % (info["task"], row.execution_id), wit)
        if row.task_hash != info["task_hash"]:
            ctx.violation("job-task-hash-wrong", "job %s" % info["task"], wit)
        if row.call_hash != info["call_hash"]:
            ctx.violation("job-call-hash-wrong", "job %s: row %r, observed %r" % (info["task"], row.call_hash, info["call_hash"]), wit)
        if not info["call_hash"]:
            ctx.violation("finished-job-without-call-hash", "job %s settled %s without a call hash" % (info["task"], info["settled"][0]), wit)
            continue
        if bool(row.cached) != bool(info["status_was_cached"]):
            ctx.violation("job-cached-flag-wrong", "job %s: cached=%r, observed %r" % (info["task"], row.cached, info["status_was_cached"]), wit)
        cn = ses.query(CallNode).filter_by(call_hash=info["call_hash"]).one_or_none()
        if cn is None:
            ctx.violation("call-node-missing", "job %s: call node %s not recorded" % (info["task"], info["call_hash"][:8]), wit)
            continue
        ctx.count("call_nodes_audited")
        if cn.task_hash != info["task_hash"] or cn.args_hash != info["args_hash"]:
            ctx.violation("call-node-fields-wrong", "job %s: call node task/args hash differ from the job's" % info["task"], wit)
        edges = sorted(ses.query(CallEdge).filter_by(parent_id=cn.call_hash).all(), key=lambda e: e.call_order)
        edge_children = [e.child_id for e in edges]
        if not info["status_was_cached"]:
            # 2. Merkle hash: the node's hash must be the hash of (task, args, result, recorded children), and the
            # recorded children must be children the job really had.  Observed children that had settled with a call
            # hash before this job settled MUST be recorded; children whose call hash became known without the harness
            # seeing them settle first (forked threads, work abandoned when a failure ended the execution) MAY be.
            kids_all = children.get(info["id"], [])
            must = collections.Counter(k["call_hash"] for k in kids_all
                                       if k.get("call_hash") and k.get("settle_seq", 1 << 60) < info["settle_seq"])
            may = collections.Counter(h_ for h_ in ((k.get("call_hash") or getattr(k.get("job"), "call_hash", None)) for k in kids_all) if h_)
            rec = collections.Counter(edge_children)
            kids = [k for k in kids_all if k.get("call_hash") and k.get("settle_seq", 1 << 60) < info["settle_seq"]]
            # children that run without provenance have a call hash that enters the parent's hash, but no CallNode row
            # and hence no edge
            def no_row(hh):
                return ses.query(CallNode).filter_by(call_hash=hh).first() is None
            norow_must = [hh for hh in must.elements() if no_row(hh)]
            norow_may = [hh for hh in may.elements() if no_row(hh)]
            cands = [edge_children, edge_children + norow_must, edge_children + norow_may]
            if not any(hash_call_node(cn.task_hash, cn.args_hash, cn.value_hash, ch_) == cn.call_hash for ch_ in cands):
                ctx.violation("call-hash-not-merkle", "job %s: call_hash is not the hash of (task, args, result, recorded children "
                              "[+ children without provenance])" % info["task"], wit)
            for hh in set(norow_may):
                must.pop(hh, None)
            # result hash equals the hash of what the job was given
            if info["settled"][0] == "ok":
                try:
                    rh = reg.get_hash(info["settled_obj"])
                except Exception:
                    rh = None
                ctx.count("result_hashes_compared")
                if rh is not None and rh != cn.value_hash and not has_unordered(info["settled_obj"]):
                    ctx.violation("call-node-result-hash-wrong", "job %s: recorded result hash differs from the hash of the "
                                  "value delivered to the job" % info["task"], wit)
            # 3. edges mirror the children the job had (a CallNode row is written once: an identical call recorded
            # earlier has, by the Merkle property, the same children)
            missing = must - rec
            alien = rec - may
            if missing and set(missing) - set(rec):
                ctx.violation("call-edges-wrong", "job %s: %d observed child call(s) have no edge, e.g. %s" % (
                    info["task"], sum(missing.values()), sorted(missing)[0][:8]), wit)
            if alien and set(alien) - set(may):
                ctx.violation("call-edges-wrong", "job %s: %d edge(s) to calls that are not children of the job, e.g. %s" % (
                    info["task"], sum(alien.values()), sorted(alien)[0][:8]), wit)
            orders = sorted(e.call_order for e in edges)
            if orders != list(range(len(orders))):
                ctx.violation("call-edges-wrong", "job %s: call_order values %r are not 0..n-1" % (info["task"], orders), wit)
            ctx.count("merkle_hashes_recomputed")
        else:
            h = hash_call_node(cn.task_hash, cn.args_hash, cn.value_hash, edge_children)
            if h != cn.call_hash:
                ctx.count("cached_nodes_with_unrecorded_children")
    # 5. values
    for vrow in ses.query(ValueRow).all():
        ctx.count("value_rows_audited")
        try:
            value, ok = s.backend._get_value(vrow)
        except Exception as e:
            ctx.violation("value-not-deserializable", "value %s (%s): %r" % (vrow.value_hash[:8], vrow.type, e), wit)
            continue
        if not ok:
            ctx.count("values_of_unknown_type")
            continue
        try:
            h = reg.get_hash(value)
        except Exception as e:
            ctx.violation("value-not-hashable", "value %s (%s): %r" % (vrow.value_hash[:8], vrow.type, e), wit)
            continue
        if h != vrow.value_hash:
            mech = "value-hash-unstable-for-nested-unordered-collection" if has_unordered(value) else "value-hash-mismatch:" + vrow.type
            ctx.violation(mech, "value row %s deserialises to a value hashing to %s" % (vrow.value_hash[:8], h[:8]), wit)
        links = {r.value_hash for r in ses.query(Subvalue).filter_by(parent_value_hash=vrow.value_hash).all()}
        try:
            subs = {reg.get_hash(sv) for sv in reg.iter_subvalues(value)}
        except Exception:
            subs = links
        if links != subs:
            ctx.violation("subvalue-links-wrong", "value %s (%s): links %d, subvalues %d" % (vrow.value_hash[:8], vrow.type, len(links), len(subs)), wit)
    # 6a. task-option tags of every job that finished with provenance
    for jid in c.job_order:
        info = c.jobs[jid]
        job = info.get("job")
        if job is None or not info.get("prov", True) or "settled" not in info or not info.get("call_hash"):
            continue
        try:
            req = sorted(str(t[1]) for t in (job.get_option("tags", []) or []) if t and t[0] == "ot")
        except Exception:
            continue
        if not req:
            continue
        got = sorted(str(t.value) for t in ses.query(Tag).filter_by(key="ot", entity_id=jid).all())
        ctx.count("job_option_tags_checked")
        if info.get("status_was_cached"):
            ctx.count("job_option_tags_checked_on_cached_jobs")
        if got != req:
            ctx.violation("job-option-tag-missing", "job %s (%s) requested tags %r, recorded %r" % (
                info["task"], "cached" if info.get("status_was_cached") else "executed", req, got), wit)
    # 6. tags requested by the program
    if tag_nodes and root.get("prov", True):
        for n in tag_nodes:
            try:
                outs = wf.Ref().run(n[1])
                for o in outs:
                    if o[0] == "v":
                        cand_values.add(reg.get_hash(o[1]))
            except Exception:
                pass
        for t in ses.query(Tag).filter(Tag.key.in_(["tk", "jk", "ek"])).all():
            ctx.count("tags_audited")
            if t.key == "tk" and not (t.entity_type.name == "Value" and (t.entity_id in cand_values or not cand_values)):
                ctx.violation("value-tag-misplaced", "tag tk on %s %s" % (t.entity_type.name, t.entity_id[:8]), wit)
            if t.key == "jk" and not (t.entity_type.name == "Job" and ses.query(JobRow).filter_by(id=t.entity_id).first() is not None):
                ctx.violation("job-tag-misplaced", "tag jk on %s %s" % (t.entity_type.name, t.entity_id[:8]), wit)
            if t.key == "ek" and not (t.entity_type.name == "Execution" and ses.query(Execution).filter_by(id=t.entity_id).first() is not None):
                ctx.violation("execution-tag-misplaced", "tag ek on %s %s" % (t.entity_type.name, t.entity_id[:8]), wit)
        # a top-level apply_tags of a successful run must have left its tags on the root job / execution
        if out[0] == "v" and ast[0] == "apply_tags":
            if ast[3] and not ses.query(Tag).filter_by(key=ast[3][0][0], entity_id=root["id"]).first():
                ctx.violation("job-tag-missing", "job tag %r not on the root job" % (ast[3][0],), wit)
            if ast[4] and not ses.query(Tag).filter_by(key=ast[4][0][0], entity_id=exec_id).first():
                ctx.violation("execution-tag-missing", "execution tag %r not on the execution" % (ast[4][0],), wit)
            ctx.count("toplevel_apply_tags_checked")


def find_nodes(n, kind, acc):
    if n[0] == kind:
        acc.append(n)
    for ch in wf.children(n):
        find_nodes(ch, kind, acc)
    return acc


def shard(ctx, n, sub, depth):
    rnd = random.Random("%s-%s-c20" % (ctx.seed, sub))
    backend = engine.new_backend()
    for i in range(n):
        g = wf.Gen(rnd, max_depth=depth, fan=3, err_budget=rnd.choice([0, 0, 1, 2]))
        ast = g.program()
        if i % 6 == 5:
            # the same call once inside a no-provenance region and once outside, the outside one becoming ready while
            # the inside one may still be in flight (and the other way round)
            v = rnd.randint(0, 5)
            nm = rnd.choice(["inc", "neg", "inc2"])
            inside = ["noprov", ["call", nm, [["val", v]], {}, {}]]
            outside = ["call", nm, [["call", "ident", [["call", "ident", [["val", v]], {}, {}]], {}, {}]], {}, {}]
            ast = ["cont", "list", [inside, outside, ast] if rnd.random() < 0.5 else [outside, inside, ast]]
            ctx.count("noprov_twin_programs")
        if rnd.random() < 0.25:
            ast = ["apply_tags", ast, [["tk", "tv"]], [["jk", rnd.randint(0, 3)]], [["ek", "e%d" % i]]]
        try:
            wf.expected_outcomes(ast)
        except wf.RefTooBig:
            continue
        # task-option tags on a random subset of the calls (every job of such a call - executed, collapsed onto a twin or
        # served from the cache - must carry them)
        counter = [0]

        def add_tag(cnode):
            counter[0] += 1
            if rnd.random() < 0.35:
                o = dict(cnode[4]) if len(cnode) > 4 else {}
                o["options"] = dict(o.get("options") or {}, tags=[["ot", "c%d" % counter[0]]])
                while len(cnode) < 5:
                    cnode.append({})
                cnode[4] = o
            return cnode
        ast = wf.map_calls(json.loads(json.dumps(ast)), add_tag)
        tag_nodes = find_nodes(ast, "apply_tags", [])
        if i % 10 == 0:
            cand_values = set()
        ctx.ev()
        recorded = 0
        for run_i in range(rnd.choice([2, 3])):
            name, ch = engine.choosers(rnd, 6)[rnd.randrange(6)]
            out, c, s = engine.run_controlled(wf.build(ast), ch, backend=backend, cache=(run_i > 0 or rnd.random() < 0.8))
            ctx.count("executions")
            if out[0] in ("deadlock", "steplimit"):
                break
            if out[0] == "e" and engine.is_db_failure(out[1]):
                ctx.violation("database-error", "%r" % (engine.outcome_key(out),), {"ast": ast})
                backend = engine.new_backend()
                break
            wit = {"ast": ast, "run": run_i, "schedule": name, "where": {"seed": ctx.seed, "sub": sub, "i": i}}
            audit(ctx, c, s, out, ast, wit, tag_nodes, cand_values)
            recorded = max(recorded, len(c.job_order))
            if out[0] == "e":
                ctx.count("failed_executions_audited")
            if any(c.jobs[j].get("status_was_cached") for j in c.job_order):
                ctx.count("executions_with_cached_jobs")
        if recorded >= 3:
            ctx.nontrivial(ast)
        if i < 2:
            ctx.sample({"ast": json.loads(json.dumps(ast, default=repr))})
        if i % 10 == 9:
            backend = engine.new_backend()


def main(ctx):
    if ctx.is_quick():
        ctx.shards("shard", [{"n": 8, "sub": s, "depth": 4} for s in range(16)], timeout=600)
    else:
        ctx.shards("shard", [{"n": 600, "sub": s, "depth": 6} for s in range(16)], timeout=3400)
    ctx.require("jobs_audited", 500)
    ctx.require("merkle_hashes_recomputed", 300)
    ctx.require("value_rows_audited", 1000)
    ctx.require("failed_executions_audited", 10)
    ctx.require("executions_with_cached_jobs", 30)
    ctx.require("noprov_jobs_checked", 5)
    ctx.require("job_option_tags_checked_on_cached_jobs", 20)


def replay(ctx, witness):
    ast = witness["ast"]
    backend = engine.new_backend()
    tag_nodes = find_nodes(ast, "apply_tags", [])
    for run_i in range(witness.get("run", 0) + 1):
        out, c, s = engine.run_controlled(wf.build(ast), engine.chooser_from_name(witness.get("schedule", "eager_fifo")), backend=backend)
        print("run", run_i, engine.outcome_key(out))
        audit(ctx, c, s, out, ast, witness, tag_nodes, set())
