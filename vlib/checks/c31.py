"""C31 — value storage location is transparent.

Round-trip monitor on the real backend: generated values are recorded under generated backend
configurations (no value store / value store with a generated min size / FileCache-typed values /
generated max_value_size) and read back with get_value.  Oracle: the read-back value hashes to the key it
was recorded under wherever its bytes live; recording twice is idempotent; serialisations longer than
max_value_size raise RedunDatabaseError and leave no row; when the offloaded bytes are deleted the value
reads as absent, never as a different value.
"""
import os
import random
import shutil
import sqlite3
import tempfile

from redun.backends.db import RedunBackendDb, RedunDatabaseError
from redun.config import create_config_section
from redun.value import FileCache, get_type_registry

PROPERTY = "C31"
LEVEL = "exploration"
RULE = ("values: ints, strs (0..5000 chars), bytes, nested lists/dicts/tuples, dataclass-like NamedTuple, Blob objects "
        "of a FileCache-registered type; configurations: value_store on/off, value_store_min_size in {0, 40, 100, 1000, "
        "default}, max_value_size in {60, 500, default}; per value: record, read, record again, read, delete offloaded "
        "bytes, read, record again, read.  Non-trivial = distinct (value, configuration) whose bytes were offloaded or rejected.")
ASSUMPTIONS = ["SQLite file backend, local value store directory"]


class Blob:
    def __init__(self, data):
        self.data = data


_cache_dir = {"path": "."}


class BlobType(FileCache):
    type = Blob
    type_name = "vlib.checks.c31.Blob"
    base_path = "."


def gen_value(rnd):
    r = rnd.random()
    if r < 0.15:
        return rnd.randint(-10 ** 9, 10 ** 9)
    if r < 0.45:
        return "s" * rnd.choice([0, 1, 10, 40, 90, 400, 1200, 5000]) + str(rnd.randint(0, 10 ** 6))
    if r < 0.55:
        return bytes(rnd.getrandbits(8) for _ in range(rnd.choice([0, 5, 80, 700])))
    if r < 0.75:
        return [gen_value(rnd) for _ in range(rnd.randint(0, 4))]
    if r < 0.85:
        return {"k%d" % i: gen_value(rnd) for i in range(rnd.randint(0, 3))}
    if r < 0.92:
        return (rnd.randint(0, 9), "t" * rnd.randint(0, 300))
    return Blob("b" * rnd.choice([1, 50, 2000]) + str(rnd.randint(0, 10 ** 6)))


def make_backend(d, rnd):
    cfg = {"db_uri": "sqlite:///" + os.path.join(d, "r.db")}
    use_store = rnd.random() < 0.7
    if use_store:
        cfg["value_store_path"] = os.path.join(d, "store")
        ms = rnd.choice([0, 40, 100, 1000, None])
        if ms is not None:
            cfg["value_store_min_size"] = str(ms)
    mx = rnd.choice([60, 500, None, None])
    if mx is not None:
        cfg["max_value_size"] = str(mx)
    b = RedunBackendDb(config=create_config_section(cfg))
    b.load()
    return b, cfg


def row_count(d, value_hash):
    con = sqlite3.connect(os.path.join(d, "r.db"))
    try:
        return con.execute("select count(*), max(length(value)) from value where value_hash=?", (value_hash,)).fetchone()
    finally:
        con.close()


def run_case(ctx, rnd, where):
    d = tempfile.mkdtemp(prefix="verif_c31_")
    cwd = os.getcwd()
    try:
        os.chdir(d)   # FileCache base_path "." resolves here
        backend, cfg = make_backend(d, rnd)
        reg = get_type_registry()
        for _ in range(rnd.randint(3, 8)):
            v = gen_value(rnd)
            ctx.ev()
            wit = {"value": repr(v)[:120] if not isinstance(v, Blob) else "Blob(%d)" % len(v.data), "config": cfg, "where": where}
            data_len = len(reg.serialize(v))
            too_big = "max_value_size" in cfg and data_len > int(cfg["max_value_size"])
            try:
                h = backend.record_value(v)
            except RedunDatabaseError:
                ctx.count("rejections")
                if not too_big:
                    ctx.violation("rejected-although-within-limit", "serialisation of %d bytes rejected (limit %s)" % (data_len, cfg.get("max_value_size")), wit)
                else:
                    ctx.nontrivial([wit["value"], cfg])
                    hh = reg.get_hash(v)
                    n, _ = row_count(d, hh)
                    if n:
                        ctx.violation("rejected-value-left-a-row", "a row exists for a rejected value", wit)
                continue
            except Exception as e:
                ctx.violation("record-raised", "%r" % (e,), wit)
                continue
            if too_big:
                ctx.violation("oversized-value-accepted", "serialisation of %d bytes accepted with max_value_size=%s" % (data_len, cfg["max_value_size"]), wit)
                continue
            ctx.count("values_recorded")
            own = reg.get_hash(v)
            if h != own:
                if isinstance(v, Blob):
                    # FileCache values are keyed by the hash of their serialisation (the cache file name), which is
                    # not the value's own hash; recorded as an observation, the property speaks of the value read back
                    ctx.count("filecache_key_differs_from_value_hash")
                else:
                    ctx.violation("record-returns-other-hash", "record_value hash differs from the value's hash", wit)
            n, stored_len = row_count(d, h)
            offloaded = (stored_len == 0) and data_len > 0
            store_path = os.path.join(d, "store", h[:2], h[2:]) if "value_store_path" in cfg else None
            if offloaded:
                ctx.count("values_offloaded_to_value_store")
                ctx.nontrivial([wit["value"], cfg])
                if not (store_path and os.path.exists(store_path)):
                    ctx.violation("offloaded-bytes-not-in-store", "row has empty data but the store has no file", wit)
            if isinstance(v, Blob):
                ctx.count("filecache_values")
                ctx.nontrivial([wit["value"], cfg])

            def read():
                backend.session.expire_all()
                return backend.get_value(h)

            def same(v2):
                try:
                    return reg.get_hash(v2) == own and (not isinstance(v, Blob) or v2.data == v.data)
                except Exception:
                    return False
            v2, ok = read()
            ctx.count("reads")
            if not ok or not same(v2):
                ctx.violation("readback-differs", "read back ok=%s value hash differs (offloaded=%s)" % (ok, offloaded), wit)
                continue
            # idempotent second recording
            h2 = backend.record_value(v)
            n2, _ = row_count(d, h)
            if h2 != h or n2 != 1:
                ctx.violation("second-recording-not-idempotent", "hash %s rows %d" % (h2 == h, n2), wit)
            v3, ok3 = read()
            if not ok3 or not same(v3):
                ctx.violation("readback-differs-after-second-recording", "ok=%s" % ok3, wit)
            # delete the offloaded bytes
            victim = None
            if offloaded and store_path:
                victim = store_path
            elif isinstance(v, Blob):
                fn = reg.serialize(v).decode("utf8")
                victim = os.path.join(d, fn) if not os.path.isabs(fn) else fn
            if victim and os.path.exists(victim):
                os.unlink(victim)
                try:
                    v4, ok4 = read()
                except Exception as e:
                    ctx.violation("missing-bytes-raise", "reading a value whose offloaded bytes are gone raised %r" % (e,), wit)
                    continue
                ctx.count("reads_with_missing_bytes")
                if ok4:
                    ctx.violation("missing-bytes-read-as-value", "offloaded bytes deleted but get_value returned ok with %r" % (repr(v4)[:60],), wit)
                elif v4 is not None:
                    ctx.violation("missing-bytes-read-as-value", "absent value returned as %r" % (repr(v4)[:60],), wit)
                # recording the value again makes it a recorded value again: it must read back, wherever the bytes go
                try:
                    h5 = backend.record_value(v)
                    v5, ok5 = read()
                except Exception as e:
                    ctx.violation("rerecord-after-loss-raised", "%r" % (e,), wit)
                    continue
                ctx.count("rerecordings_after_lost_bytes")
                if h5 != h or not ok5 or not same(v5):
                    ctx.violation("rerecorded-value-does-not-read-back", "after the offloaded bytes were lost, record_value returned "
                                  "%s but the value reads back as ok=%s" % ("the same hash" if h5 == h else "another hash", ok5), wit)
        backend.session.close()
        backend.engine.dispose()
    finally:
        os.chdir(cwd)
        shutil.rmtree(d, ignore_errors=True)


def shard(ctx, n, sub):
    rnd = random.Random("%s-%s-c31" % (ctx.seed, sub))
    for i in range(n):
        run_case(ctx, rnd, {"seed": ctx.seed, "sub": sub, "i": i})
    ctx.sample({"example_config": {"value_store_min_size": 40, "max_value_size": 500}})


def main(ctx):
    n = ctx.pick(12, 400)
    ctx.shards("shard", [{"n": n, "sub": s} for s in range(16)], timeout=ctx.pick(600, 3400))
    ctx.require("values_recorded", 300)
    ctx.require("values_offloaded_to_value_store", 50)
    ctx.require("rejections", 20)
    ctx.require("reads_with_missing_bytes", 30)
    ctx.require("rerecordings_after_lost_bytes", 30)
    ctx.require("filecache_values", 10)


def replay(ctx, witness):
    print(witness)
