"""C04 — cached results with external values are replayed only while still valid.

History monitor: a producer task creates an external value (each file value class, staging variants,
and a Handle) and returns it; between executions on one backend the harness deletes, truncates, rewrites
(changing size or mtime), rewrites with identical bytes, recreates, or adds/removes directory members.
Oracle: an independent validity model per value class (plain: (exists,size,mtime) of every member;
Content*: paths and bytes; I*: always valid) decides whether the producer must run again; Scheduler.run
must never raise; after a re-execution the files hold what the producer writes.
"""
import os
import random
import shutil
import tempfile

from redun import File, task
from redun import file as rf

from vlib import ctl, engine, trace

PROPERTY = "C04"
LEVEL = "exploration"
RULE = ("value classes {File, Dir, FileSet, IFile, IDir, IFileSet, ContentFile, ContentDir, ContentFileSet, nested list "
        "of Files, StagingFile result} x histories of 2-5 external steps from {nothing, delete, truncate, rewrite-size, "
        "rewrite-mtime, same-bytes-new-mtime, recreate, add-member, remove-member}; an execution follows every step.  "
        "Non-trivial = distinct (class, history) with >=1 invalidating and >=1 non-invalidating step.")
ASSUMPTIONS = ["local filesystem; mtimes forced apart with os.utime",
               "producer output is a deterministic function of its arguments"]

CLASSES = ["File", "Dir", "FileSet", "IFile", "IDir", "IFileSet", "ContentFile", "ContentDir", "ContentFileSet", "FileList",
           "Staged"]
T = {}


def members(kind, base):
    if kind in ("File", "IFile", "ContentFile", "Staged"):
        return [os.path.join(base, "out.txt")]
    return [os.path.join(base, "dir", "a.txt"), os.path.join(base, "dir", "sub", "b.txt")]


def _produce(kind, base, tag):
    trace.enter("produce", kind, tag)
    paths = members(kind, base)
    for i, p in enumerate(paths):
        os.makedirs(os.path.dirname(p), exist_ok=True)
        with open(p, "w") as f:
            f.write("%s-%d" % (tag, i))
    d = os.path.join(base, "dir")
    pat = os.path.join(d, "**", "*.txt")
    if kind == "File":
        return rf.File(paths[0])
    if kind == "IFile":
        return rf.IFile(paths[0])
    if kind == "ContentFile":
        return rf.ContentFile(paths[0])
    if kind == "Dir":
        return rf.Dir(d)
    if kind == "IDir":
        return rf.IDir(d)
    if kind == "ContentDir":
        return rf.ContentDir(d)
    if kind == "FileSet":
        return rf.FileSet(pat)
    if kind == "IFileSet":
        return rf.IFileSet(pat)
    if kind == "ContentFileSet":
        return rf.ContentFileSet(pat)
    if kind == "FileList":
        return {"files": [rf.File(p) for p in paths], "n": len(paths)}
    if kind == "Staged":
        # result produced through staging: local scratch file copied to the remote path
        local = rf.File(os.path.join(base, "local-scratch.txt"))
        local.write("%s-0" % tag)
        return rf.StagingFile(local, rf.File(paths[0])).unstage()
    raise ValueError(kind)


def _consume(v):
    trace.enter("consume")
    if isinstance(v, dict):
        v = v["files"]
    if isinstance(v, list):
        return [f.read() if f.exists() else None for f in v]
    if isinstance(v, rf.FileSet):
        return sorted((os.path.basename(f.path), f.read()) for f in v)
    return v.read() if v.exists() else None


def _pipeline(kind, base, tag):
    trace.enter("pipeline")
    return [T["produce"](kind, base, tag), T["consume"](T["produce"](kind, base, tag))]


for _n, _f in (("produce", _produce), ("consume", _consume), ("pipeline", _pipeline)):
    _f.__name__ = _n
    _f.__module__ = __name__
    T[_n] = task(name=_n, namespace="c04", source="c04:%s" % _n)(_f)


def stat_sig(paths):
    out = []
    for p in paths:
        if os.path.exists(p):
            st = os.stat(p)
            out.append((p, st.st_size, st.st_mtime))
        else:
            out.append((p, -1, -1))
    return out


def listing(kind, base):
    """Current member files as the value would enumerate them."""
    if kind in ("File", "IFile", "ContentFile", "Staged"):
        return members(kind, base)
    found = []
    for r, _, fs in os.walk(os.path.join(base, "dir")):
        for f in fs:
            if kind in ("FileSet", "IFileSet", "ContentFileSet") and not f.endswith(".txt"):
                continue
            found.append(os.path.join(r, f))
    if kind == "FileList":
        return members(kind, base)
    return sorted(found)


def validity_state(kind, base):
    """What the recorded validity of the value depends on, per the value-class semantics."""
    if kind.startswith("I"):
        return "always-valid"
    paths = listing(kind, base)
    if kind.startswith("Content"):
        return [(p, open(p, "rb").read() if os.path.exists(p) else None) for p in paths]
    return stat_sig(paths)


class Clock:
    t = 1_500_000_000


def ext_step(rnd, kind, base, step):
    paths = members(kind, base)
    p = rnd.choice(paths)
    Clock.t += 100
    if step == "delete":
        if os.path.exists(p):
            os.unlink(p)
    elif step == "truncate":
        if os.path.exists(p):
            open(p, "w").close()
            os.utime(p, (Clock.t, Clock.t))
    elif step == "rewrite-size":
        with open(p, "w") as f:
            f.write("external-change-%d" % rnd.randint(0, 10 ** 6))
        os.utime(p, (Clock.t, Clock.t))
    elif step == "rewrite-mtime":
        if os.path.exists(p):
            data = open(p).read()
            with open(p, "w") as f:
                f.write(data[::-1] if data[::-1] != data else data + "")
            os.utime(p, (Clock.t, Clock.t))
    elif step == "same-bytes-new-mtime":
        if os.path.exists(p):
            data = open(p).read()
            with open(p, "w") as f:
                f.write(data)
            os.utime(p, (Clock.t, Clock.t))
    elif step == "recreate":
        if not os.path.exists(p):
            os.makedirs(os.path.dirname(p), exist_ok=True)
            with open(p, "w") as f:
                f.write("recreated")
            os.utime(p, (Clock.t, Clock.t))
    elif step == "add-member":
        d = os.path.join(base, "dir")
        if os.path.isdir(d):
            q = os.path.join(d, "extra%d.txt" % rnd.randint(0, 2))
            with open(q, "w") as f:
                f.write("extra")
            os.utime(q, (Clock.t, Clock.t))
    elif step == "remove-member":
        d = os.path.join(base, "dir")
        if os.path.isdir(d):
            for q in sorted(os.listdir(d)):
                if q.startswith("extra"):
                    os.unlink(os.path.join(d, q))
                    break


STEPS = ["nothing", "delete", "truncate", "rewrite-size", "rewrite-mtime", "same-bytes-new-mtime", "recreate", "add-member",
         "remove-member"]


def run_case(ctx, rnd, kind, where):
    d = tempfile.mkdtemp(prefix="verif_c04_")
    try:
        base = os.path.join(d, "w")
        os.makedirs(base)
        backend = engine.new_backend()
        tag = "t%d" % rnd.randint(0, 3)
        log = []
        recorded = None
        n_inval = n_keep = 0
        for i in range(rnd.randint(3, 6)):
            step = "start" if i == 0 else rnd.choice(STEPS)
            if i:
                ext_step(rnd, kind, base, step)
            before = validity_state(kind, base)
            must_run = recorded is None or (before != "always-valid" and before != recorded)
            trace.reset()
            out, c, s = engine.run_controlled(T["pipeline"](kind, base, tag), ctl.RandomChooser(rnd.randrange(1 << 30)), backend=backend)
            calls = [n for n, _ in trace.snapshot()]
            produced = "produce" in calls
            log.append([step, "produced" if produced else "replayed"])
            wit = {"class": kind, "log": log, "where": where}
            ctx.count("executions")
            ctx.count("step_" + step)
            if out[0] != "v":
                exc = out[1]
                mech = "run-raises-on-invalid-external-value:" + type(exc).__name__ if out[0] == "e" else "run-did-not-terminate"
                ctx.violation(mech, "execution after %r raised %r" % (step, engine.outcome_key(out)), wit)
                return
            if must_run and not produced:
                ctx.violation("stale-external-value-replayed:" + kind, "after %r the recorded %s is no longer valid but the producer "
                              "was not executed again" % (step, kind), wit)
                return
            if produced and i:
                n_inval += 1
                ctx.count("reexecutions_after_invalidation")
            elif i:
                n_keep += 1
                ctx.count("replays_while_valid")
            if not must_run and produced and i:
                ctx.count("conservative_reexecutions")   # allowed: the property only forbids replaying invalid values
            # after an execution the consumer result must reflect the files as the producer writes them (or, for
            # always-valid immutable values, whatever is there now)
            if produced:
                exp = ["%s-%d" % (tag, j) for j in range(len(members(kind, base)))]
                got = out[1][1]
                flat = [x[1] if isinstance(x, tuple) else x for x in (got if isinstance(got, list) else [got])]
                if kind in ("Dir", "IDir", "ContentDir", "FileSet", "IFileSet", "ContentFileSet"):
                    flat = [x for x in flat if x != "extra"]
                if sorted(map(str, flat)) != sorted(exp):
                    ctx.violation("result-does-not-reflect-current-state", "after re-execution consumer saw %r, producer writes %r" % (got, exp), wit)
                    return
            recorded = validity_state(kind, base)
        ctx.ev()
        if n_inval and n_keep:
            ctx.nontrivial([kind, [l[0] for l in log]])
    finally:
        shutil.rmtree(d, ignore_errors=True)


def shard(ctx, n, sub):
    rnd = random.Random("%s-%s-c04" % (ctx.seed, sub))
    for i in range(n):
        kind = CLASSES[(i + sub) % len(CLASSES)]
        run_case(ctx, rnd, kind, {"seed": ctx.seed, "sub": sub, "i": i})
        ctx.count("class_" + kind)
    ctx.sample({"classes": CLASSES, "steps": STEPS})


def main(ctx):
    n = ctx.pick(11, 220)
    ctx.shards("shard", [{"n": n, "sub": s} for s in range(16)], timeout=ctx.pick(600, 3400))
    ctx.require("executions", 400)
    ctx.require("reexecutions_after_invalidation", 50)
    ctx.require("replays_while_valid", 50)


def replay(ctx, witness):
    print(witness)
    w = witness["where"]
    from vlib.core import Ctx
    rnd = random.Random("%s-%s-c04" % (w["seed"], w["sub"]))
    for i in range(w["i"] + 1):
        kind = CLASSES[(i + w["sub"]) % len(CLASSES)]
        run_case(ctx if i == w["i"] else Ctx("C04", "quick", w["seed"]), rnd, kind, w)
