"""C03 — shallow (ultimate-reduction) cache hits respect code changes in the subtree.

Fault enumeration + histories: a recording run of main -> parent(check_valid=shallow) -> child ->
grandchild is (a) left alone, (b) killed at every commit, (c) hit by a transient OperationalError at
every SQL statement, or (d) transferred to a fresh repository (push/pull path `_sync_records`, and
export -> JSON -> import); afterwards each task beneath the shallow call is edited in turn and the
program is re-run.  Oracle (behavioural): the result must equal the result on an empty backend, i.e.
a recorded final result may only be replayed while every task that ran beneath it is unchanged.
"""
import json
import os
import shutil
import tempfile

from vlib import dbaudit, engine, faults, hist
from vlib.checks import c22

PROPERTY = "C03"
LEVEL = "fault_enumeration"
RULE = ("recording workloads over the vh family with check_valid=shallow on {mid}, {top}, {deep}, {top,mid} (nested "
        "shallow), incl. duplicates and a failing sibling under catch; backend pre-history in {clean, death at commit "
        "k (before/after), transient error at statement s, transfer by sync, transfer by export/import}; then an "
        "unchanged rerun and an edit of each subtree task in turn.  Case = (shape, pre-history point, edited task); "
        "non-trivial = distinct case in which the edited task lies beneath a shallow-cached call.")
ASSUMPTIONS = ["SQLite backend", "only behaviour decides (result differs from the empty-backend result); structural "
               "observations are reported but are not verdicts"]

SHAPES = {
    "mid": {"shallow": ["mid"], "program": "top", "edits": [("leafA", 1), ("plus", 1), ("leafB", 1), ("mid", 1)]},
    "top": {"shallow": ["top"], "program": "deep", "edits": [("leafA", 2), ("plus", 2), ("mid", 1), ("leafB", 2), ("top", 1)],
            "ext": "newtop"},
    "deep": {"shallow": ["deep"], "program": "deep2", "edits": [("leafA", 1), ("mid", 2), ("top", 2), ("leafB", 1)]},
    "nested": {"shallow": ["top", "mid"], "program": "deep", "edits": [("leafA", 1), ("plus", 1), ("mid", 2)], "ext": "newtop"},
    # a task without provenance beneath the shallow call, with further tasks beneath it
    "noprov": {"shallow": ["top"], "noprov": ["mid"], "program": "deep", "edits": [("leafA", 1), ("plus", 1), ("leafB", 1)]},
    # the shallow call's child is answered from an equal call made earlier in the same execution (no child jobs)
    "csehit": {"shallow": ["top"], "program": "seqmidtop", "edits": [("leafA", 1), ("plus", 1), ("leafB", 1)]},
    "guarded": {"shallow": ["guarded"], "program": "guardedmix", "edits": [("leafA", 1), ("recover", 1)]},
}


def config(shape):
    cfg = {n: {"variant": 0, "versioned": n in ("leafB",)} for n in hist.BODY}
    for n in SHAPES[shape]["shallow"]:
        cfg[n]["options"] = {"check_valid": "shallow"}
    for n in SHAPES[shape].get("noprov", []):
        cfg[n]["options"] = {"prov": False}
    return cfg


def expr(shape, program=None):
    T = hist.T
    p = program or SHAPES[shape]["program"]
    if p == "newtop":
        # a shallow parent call that is new to the database, above a child call (mid(2)) that is already recorded
        return T["top"](2, 6)
    if p == "seqmidtop":
        from redun.functools import seq
        return seq([T["mid"](2), T["top"](2, 3)])
    if p == "top":
        return [T["top"](2, 3), T["mid"](2)]
    if p == "deep":
        return T["deep"](2)
    if p == "deep2":
        return [T["deep"](2), T["leafA"](2)]
    if p == "guardedmix":
        return [T["guarded"](0), T["guarded"](1)]
    raise ValueError(p)


def setup(shape, edit=None):
    hist.reset(config(shape))
    if edit:
        hist.define(*edit)


def run_file(path, shape, crash=None, transient=None, program=None):
    backend = c22.open_backend(path)
    plan = faults.FaultPlan(backend, crash=crash, transient=transient)
    try:
        with plan:
            try:
                key, out, calls, c = hist.run(lambda: expr(shape, program), backend)
                return "done", key, plan, calls
            except faults.Crash:
                return "crashed", None, plan, []
    finally:
        hist.close_backend(backend)


def structural_note(path):
    """CallNodes without any call_subtree_task row (reported, not a verdict)."""
    con = dbaudit.connect(path)
    try:
        return con.execute("select count(*) from call_node where call_hash not in (select call_hash from call_subtree_task)").fetchone()[0]
    finally:
        con.close()


def classify(pre):
    kind = pre[0]
    if kind in ("sync", "export-import"):
        return "transferred-call-nodes-have-no-subtree-task-rows"
    if kind in ("crash", "transient"):
        return "call-node-visible-before-its-subtree-task-rows"
    return "unclassified"


def classify_ext(pre):
    return "parent-recorded-above-cached-child-has-incomplete-subtree-tasks:" + pre[0]


def after_prehistory(ctx, shape, path, pre, scratch):
    """Unchanged rerun, then every subtree edit on its own copy of the database."""
    wit = {"shape": shape, "pre": pre}
    missing = structural_note(path)
    if missing:
        ctx.count("observed_call_nodes_without_subtree_rows", missing)
    setup(shape)
    exp0, _ = hist.fresh_result(lambda: expr(shape))
    p0 = path + ".rerun"
    shutil.copy(path, p0)
    setup(shape)
    try:
        kind, key, _, calls = run_file(p0, shape)
    except Exception as ex:
        kind, key = "raised", ("e", type(ex).__name__, str(ex)[:200])
    ctx.count("reruns")
    if kind != "done" or not c22.same(key, exp0):
        ctx.violation("unclassified" if pre[0] == "clean" else "rerun-after-" + pre[0],
                      "unchanged rerun returned %r, empty backend returns %r" % (key, exp0), wit)
        return
    for source in (path, p0):
        for edit in SHAPES[shape]["edits"]:
            setup(shape, edit)
            exp, _ = hist.fresh_result(lambda: expr(shape))
            p1 = path + ".edit"
            shutil.copy(source, p1)
            setup(shape, edit)
            try:
                kind, key, _, calls = run_file(p1, shape)
            except Exception as ex:
                kind, key = "raised", ("e", type(ex).__name__, str(ex)[:200])
            ctx.ev()
            ctx.count("edited_reruns")
            ctx.nontrivial([shape, pre, edit, source == p0])
            invoked = {n for n, _ in calls}
            if edit[0] in invoked:
                ctx.count("edited_task_reexecuted")
            if kind != "done" or not c22.same(key, exp):
                ctx.violation(classify(pre), "after %r, editing %s: shallow rerun returned %r, empty backend returns %r "
                              "(edited task invoked: %s)" % (pre, edit[0], key, exp, edit[0] in invoked),
                              dict(wit, edit=list(edit), after_unchanged_rerun=(source == p0)))
            os.unlink(p1)
    for p in (p0,):
        if os.path.exists(p):
            os.unlink(p)
    # extension: a new shallow parent call is recorded above calls the pre-history left in the database (its subtree
    # task set is derived from what is recorded for the cached children); then every subtree task is edited
    ext = SHAPES[shape].get("ext")
    if ext:
        pe = path + ".ext"
        shutil.copy(path, pe)
        setup(shape)
        exp_e, _ = hist.fresh_result(lambda: expr(shape, ext))
        setup(shape)
        try:
            kind, key, _, calls = run_file(pe, shape, program=ext)
        except Exception as ex:
            kind, key = "raised", ("e", type(ex).__name__, str(ex)[:200])
        if kind != "done" or not c22.same(key, exp_e):
            ctx.violation("unclassified" if pre[0] == "clean" else "rerun-after-" + pre[0],
                          "extension program returned %r, empty backend returns %r" % (key, exp_e), dict(wit, program=ext))
        else:
            ctx.count("extension_runs")
            if "mid" not in {n for n, _ in calls}:
                ctx.count("extension_child_served_from_cache")
            for edit in SHAPES[shape]["edits"]:
                setup(shape, edit)
                exp, _ = hist.fresh_result(lambda: expr(shape, ext))
                p1 = path + ".edit"
                shutil.copy(pe, p1)
                setup(shape, edit)
                try:
                    kind, key, _, calls = run_file(p1, shape, program=ext)
                except Exception as ex:
                    kind, key = "raised", ("e", type(ex).__name__, str(ex)[:200])
                ctx.ev()
                ctx.count("edited_reruns")
                ctx.count("edited_reruns_of_extension")
                ctx.nontrivial([shape, pre, edit, "ext"])
                if kind != "done" or not c22.same(key, exp):
                    ctx.violation(classify_ext(pre), "after %r and a new parent call above the recorded child, editing %s: shallow "
                                  "rerun of the parent returned %r, empty backend returns %r" % (pre, edit[0], key, exp),
                                  dict(wit, edit=list(edit), program=ext))
                os.unlink(p1)
        os.unlink(pe)


def measure(shape, scratch):
    path = os.path.join(scratch, "m-%s.db" % shape)
    setup(shape)
    kind, key, plan, _ = run_file(path, shape)
    os.unlink(path)
    return plan.counter.commits, plan.counter.statements


def shard(ctx, shape, kind, points):
    scratch = tempfile.mkdtemp(prefix="verif_c03_")
    try:
        for pt in points:
            path = os.path.join(scratch, "r.db")
            for f in os.listdir(scratch):
                os.unlink(os.path.join(scratch, f))
            setup(shape)
            if kind == "clean":
                run_file(path, shape)
                pre = ["clean"]
            elif kind == "crash":
                k, res, plan, _ = run_file(path, shape, crash=tuple(pt))
                if k != "crashed":
                    continue
                pre = ["crash", pt[0], pt[1]]
                ctx.count("crash_points_fired")
            elif kind == "transient":
                try:
                    k, res, plan, _ = run_file(path, shape, transient=pt)
                except Exception:
                    continue
                if not plan.fired:
                    continue
                pre = ["transient", pt]
                ctx.count("statement_points_fired")
            else:
                src = os.path.join(scratch, "src.db")
                run_file(src, shape)
                transfer(src, path, kind, scratch)
                pre = [kind]
                ctx.count("transfers")
            after_prehistory(ctx, shape, path, pre, scratch)
        ctx.sample({"shape": shape, "kind": kind, "points": points[:3]})
    finally:
        shutil.rmtree(scratch, ignore_errors=True)


def transfer(src, dst, kind, scratch):
    from redun.cli import RedunClient
    a, b = c22.open_backend(src), c22.open_backend(dst)
    try:
        if kind == "sync":
            RedunClient()._sync_records(a, b)
        else:
            # export -> JSON lines -> import, as the export / import commands do
            ids = [row[0] for row in a.session.execute(__import__("sqlalchemy").text("select id from execution"))]
            record_ids = a.iter_record_ids(ids)
            lines = [json.dumps(r) for r in a.get_records(record_ids)]
            b.put_records(json.loads(l) for l in lines)
        b.session.commit()
    finally:
        hist.close_backend(a)
        hist.close_backend(b)


def main(ctx):
    scratch = tempfile.mkdtemp(prefix="verif_c03m_")
    try:
        sizes = {s: measure(s, scratch) for s in SHAPES}
    finally:
        shutil.rmtree(scratch, ignore_errors=True)
    ctx.extra["shape_sizes"] = {s: {"commits": c, "statements": n} for s, (c, n) in sizes.items()}
    quick = ctx.is_quick()
    shapes = ["mid", "top"] if quick else list(SHAPES)
    if quick and ctx.seed % 2:
        shapes = ["nested", "deep"]
    jobs = []
    for s in SHAPES:
        if s not in shapes:
            # the cheap pre-histories of every shape on every run
            for kind in ("clean", "sync", "export-import"):
                jobs.append({"shape": s, "kind": kind, "points": [0]})
    for s in shapes:
        nc, ns = sizes[s]
        jobs.append({"shape": s, "kind": "clean", "points": [0]})
        jobs.append({"shape": s, "kind": "sync", "points": [0]})
        jobs.append({"shape": s, "kind": "export-import", "points": [0]})
        pts = [[k, w] for k in range(1, nc + 1) for w in ("before", "after")]
        if quick:
            pts = [p for p in pts if p[1] == "after" and p[0] % 3 == ctx.seed % 3]
        nsh = 3 if quick else 8
        for i in range(nsh):
            jobs.append({"shape": s, "kind": "crash", "points": pts[i::nsh]})
        step = 12 if quick else 1
        sp = list(range(1 + ctx.seed % step, ns + 1, step))
        nsh2 = 2 if quick else 8
        for i in range(nsh2):
            jobs.append({"shape": s, "kind": "transient", "points": sp[i::nsh2]})
    ctx.shards("shard", jobs, timeout=ctx.pick(900, 3400))
    ctx.exhaustive = not quick
    ctx.require("edited_reruns", 100)
    ctx.require("edited_task_reexecuted", 50)
    ctx.require("crash_points_fired", 5)
    ctx.require("transfers", 2)


def replay(ctx, witness):
    shape, pre = witness["shape"], witness["pre"]
    kind = pre[0]
    pts = [0] if kind in ("clean", "sync", "export-import") else ([[pre[1], pre[2]]] if kind == "crash" else [pre[1]])
    shard(ctx, shape, kind, pts)
