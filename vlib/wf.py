"""Workflow program ASTs: builder into redun expressions, set-valued reference interpreter, canonical
result form, and the seeded program generator.  See DESIGN.md §1.1.

AST nodes (lists, JSON-serialisable except for ["val", python-object]):
  ["val", x]                                   concrete python value
  ["call", task, [args], {kwargs}, opts]       opts: mode / ctx / options / export
  ["cont", kind, items]                        kind: list tuple set dict(items=[k,v] pairs) nt dc
  ["op", name, a, b]                           lazy operator (name as registered in redun)
  ["getitem", e, key] ["getattr", e, name] ["calle", e, [args]]
  ["cond", [c1, t1, ..., else]] ["seq", [e...]]
  ["catch", e, [[errnames, recover_task], ...]]
  ["catch_all", cont_node, errnames|None, recover_task|None]
  ["map", task_or_partial_node, list_node] ["flat_map", task, list_node]
  ["apply_func", fname, [args]] ["as_task", fname, [args]]
  ["partial", task, [bound], [args]]
  ["taskval", task] ["fork", e] ["join", e]
  ["apply_tags", e, tags, job_tags, exec_tags]
  ["getctx", path, default] ["noprov", e]
"""
import dataclasses
import itertools

from vlib import wf_tasks as T

MAX_OUTCOMES = 24


# =================================================================================================
# build: AST -> redun expression
# =================================================================================================
def _task(name, opts=None):
    t = T.TASKS[name]
    opts = opts or {}
    o = dict(opts.get("options") or {})
    if opts.get("mode"):
        o["mode"] = opts["mode"]
    if opts.get("executor"):
        o["executor"] = opts["executor"]
    if opts.get("limits") is not None:
        o["limits"] = opts["limits"]
    if o:
        t = t.options(**o)
    if opts.get("ctx") is not None or opts.get("ctx_kwargs"):
        t = t.update_context(opts.get("ctx") or {}, **(opts.get("ctx_kwargs") or {}))
    if opts.get("ctx2") is not None:
        t = t.update_context(opts["ctx2"])
    return t


def ctx_override(opts):
    """The override a call carries, combined the way successive update_context calls combine."""
    o = None
    for part in (opts.get("ctx"), opts.get("ctx_kwargs"), opts.get("ctx2")):
        if part is not None and (part or o is None):
            o = part if o is None else merge_ctx(o, part)
    return o


def errclasses(names):
    cls = tuple(T.ERRORS[n] for n in names)
    return cls[0] if len(cls) == 1 else cls


def build(n):
    import redun
    import redun.scheduler as rs
    from redun import functools as rf
    k = n[0]
    if k == "val":
        return n[1]
    if k == "call":
        opts = n[4] if len(n) > 4 else {}
        return _task(n[1], opts)(*[build(a) for a in n[2]], **{kk: build(v) for kk, v in n[3].items()})
    if k == "cont":
        kind, items = n[1], n[2]
        if kind == "dict":
            return {build(a): build(b) for a, b in items}
        vals = [build(a) for a in items]
        if kind == "list":
            return vals
        if kind == "tuple":
            return tuple(vals)
        if kind == "set":
            return set(vals)
        if kind == "nt":
            return T.NT(*vals)
        if kind == "dc":
            return T.DC(*vals)
        raise ValueError(kind)
    if k == "op":
        a, b = build(n[2]), build(n[3])
        return _apply_op(n[1], a, b)
    if k == "getitem":
        return build(n[1])[n[2]]
    if k == "getattr":
        return getattr(build(n[1]), n[2])
    if k == "calle":
        return build(n[1])(*[build(a) for a in n[2]])
    if k == "cond":
        return redun.cond(*[build(a) for a in n[1]])
    if k == "seq":
        return rf.seq([build(a) for a in n[1]])
    if k == "catch":
        args = []
        for names, rec in n[2]:
            args += [errclasses(names), T.TASKS[rec]]
        return redun.catch(build(n[1]), *args)
    if k == "catch_all":
        ec = errclasses(n[2]) if n[2] else None
        rec = T.TASKS[n[3]] if n[3] else None
        if ec is None and rec is None:
            return rs.catch_all(build(n[1]))
        return rs.catch_all(build(n[1]), ec, rec)
    if k == "map":
        return rf.map_(build(n[1]), build(n[2]))
    if k == "flat_map":
        return rf.flat_map(T.TASKS[n[1]], build(n[2]))
    if k == "apply_func":
        return rf.apply_func(T.PYFUNCS[n[1]], *[build(a) for a in n[2]])
    if k == "as_task":
        return rf.as_task(T.PYFUNCS[n[1]])(*[build(a) for a in n[2]])
    if k == "partial":
        return T.TASKS[n[1]].partial(*[build(a) for a in n[2]])(*[build(a) for a in n[3]])
    if k == "partialval":
        return T.TASKS[n[1]].partial(*[build(a) for a in n[2]])
    if k == "taskval":
        return T.TASKS[n[1]]
    if k == "fork":
        return rs.fork_thread(build(n[1]))
    if k == "join":
        return rs.join_thread(build(n[1]))
    if k == "apply_tags":
        return redun.apply_tags(build(n[1]), n[2], n[3], n[4])
    if k == "getctx":
        return redun.get_context(n[1], n[2])
    if k == "noprov":
        return rf.no_prov(build(n[1]))
    if k == "handle":
        return T.VHandle(n[1])
    if k == "merge_handles":
        return redun.merge_handles([build(a) for a in n[1]])
    raise ValueError("unknown node %r" % (k,))


def _apply_op(name, a, b):
    import operator
    ops = {"add": operator.add, "sub": operator.sub, "mul": operator.mul, "div": operator.truediv,
           "eq": operator.eq, "ne": operator.ne, "lt": operator.lt, "le": operator.le,
           "gt": operator.gt, "ge": operator.ge, "and": operator.and_, "or": operator.or_}
    rev = {"radd": "add", "rsub": "sub", "rmul": "mul", "rdiv": "div", "rand": "and", "ror": "or"}
    if name in rev:
        # python dispatches literal <op> expr to expr.__r<op>__
        return ops[rev[name]](a, b)
    return ops[name](a, b)


def _py_op(name, a, b):
    """Python semantics of the registered lazy operations (redun/expression.py)."""
    import operator
    if name in ("and", "rand"):
        return a and b
    if name in ("or", "ror"):
        return a or b
    table = {"add": operator.add, "radd": operator.add, "sub": operator.sub, "rsub": operator.sub,
             "mul": operator.mul, "rmul": operator.mul, "div": operator.truediv, "rdiv": operator.truediv,
             "eq": operator.eq, "ne": operator.ne, "lt": operator.lt, "le": operator.le,
             "gt": operator.gt, "ge": operator.ge}
    return table[name](a, b)


# =================================================================================================
# canonical form of results (never == on redun objects)
# =================================================================================================
def canon(v):
    from redun.task import Task
    if isinstance(v, BaseException):
        return ["exc", type(v).__name__, str(v)]
    if isinstance(v, bool) or v is None or isinstance(v, (int, float, str)):
        return [type(v).__name__, repr(v)]
    if isinstance(v, bytes):
        return ["bytes", repr(v)]
    if isinstance(v, Task):
        return ["task", v.fullname]
    t = type(v)
    if t is list:
        return ["list", [canon(x) for x in v]]
    if t is tuple:
        return ["tuple", [canon(x) for x in v]]
    if isinstance(v, tuple) and hasattr(v, "_fields"):
        return ["nt:" + t.__name__, [canon(x) for x in v]]
    if t in (set, frozenset):
        return [t.__name__, sorted((canon(x) for x in v), key=repr)]
    if t is dict:
        return ["dict", sorted(([canon(a), canon(b)] for a, b in v.items()), key=repr)]
    if dataclasses.is_dataclass(t):
        return ["dc:" + t.__name__, [[f.name, canon(getattr(v, f.name))] for f in dataclasses.fields(v)]]
    if t.__name__ == "Thread":
        return ["thread"]
    if hasattr(v, "__handle__"):
        return ["handle", v.__handle__.fullname, v.__handle__.hash]
    return ["obj:" + t.__name__, repr(v)]


def outcome_of_exception(e):
    return ("e", type(e).__name__, str(e))


def outcome_of_value(v):
    return ("v", repr(canon(v)))


# =================================================================================================
# reference interpreter (set-valued on concurrent errors)
# =================================================================================================
class RefTooBig(Exception):
    pass


class Ref:
    """Evaluates an AST by the documented reduction rules.  Returns a list of possible outcomes,
    each ("v", python value) or ("e", exception object)."""

    def __init__(self, context=None, call_log=None):
        self.root_context = context or {}
        self.calls = call_log if call_log is not None else []

    def run(self, n):
        return self.ev(n, self.root_context)

    # helpers -------------------------------------------------------------------------------
    def _all(self, nodes, ctx):
        """Concurrent evaluation of siblings: all values, or any one of the errors."""
        outs = [self.ev(x, ctx) for x in nodes]
        total = 1
        for o in outs:
            total *= len(o)
        if total > 4096:
            raise RefTooBig()
        res = []
        for combo in itertools.product(*outs):
            errs = [c for c in combo if c[0] == "e"]
            if errs:
                for e in errs:
                    self._add(res, e)
            else:
                self._add(res, ("v", [c[1] for c in combo]))
        return res

    def _add(self, res, o):
        key = _okey(o)
        for r in res:
            if _okey(r) == key:
                return
        if len(res) >= MAX_OUTCOMES:
            raise RefTooBig()
        res.append(o)

    def _bind(self, outs, fn):
        """fn(value) -> list of outcomes; errors pass through."""
        res = []
        for o in outs:
            if o[0] == "e":
                self._add(res, o)
            else:
                for r in fn(o[1]):
                    self._add(res, r)
        return res

    def _pure(self, fn):
        try:
            return [("v", fn())]
        except Exception as e:
            return [("e", e)]

    # evaluation of raw python values that may contain nothing lazy (results of leaf tasks) ---
    def ev(self, n, ctx):
        k = n[0]
        if k == "val":
            return [("v", n[1])]
        if k == "taskval":
            return [("v", T.TASKS[n[1]])]
        if k == "partialval":
            # a PartialTask is a concrete value; its bound argument expressions are evaluated as
            # arguments of each call made through it (so never, if it is never called)
            return [("v", ("__partial__", n[1], list(n[2])))]
        if k == "call":
            return self.call(n[1], n[2], n[3], n[4] if len(n) > 4 else {}, ctx)
        if k == "cont":
            return self.cont(n[1], n[2], ctx)
        if k == "op":
            return self._bind(self._all([n[2], n[3]], ctx),
                              lambda ab: self._pure(lambda: _py_op(n[1], ab[0], ab[1])))
        if k == "getitem":
            return self._bind(self.ev(n[1], ctx), lambda v: self._pure(lambda: v[n[2]]))
        if k == "getattr":
            return self._bind(self.ev(n[1], ctx), lambda v: self._pure(lambda: getattr(v, n[2])))
        if k == "calle":
            def go(fa):
                f, args = fa[0], fa[1:]
                return self.apply_callable(f, list(args), {}, ctx)
            return self._bind(self._all([n[1]] + list(n[2]), ctx), go)
        if k == "cond":
            return self.cond(n[1], 0, ctx)
        if k == "seq":
            return self.seq(n[1], 0, [], ctx)
        if k == "catch":
            return self.catch(n, ctx)
        if k == "catch_all":
            return self.catch_all(n, ctx)
        if k == "map":
            # map_ is a scheduler task: it evaluates the task first; a literal list/tuple of values is NOT evaluated
            # by map_ itself - each element expression becomes an argument of its call (evaluated together with the
            # bound arguments of a partial); any other values expression is evaluated first
            vn = n[2]

            def go_f(f):
                if vn[0] == "cont" and vn[1] in ("list", "tuple"):
                    return self._combine([self.apply_callable_nodes(f, [x], ctx) for x in vn[2]])

                def go_values(values):
                    if not isinstance(values, (list, tuple)):
                        try:
                            values = list(values)
                        except Exception as e:
                            return [("e", e)]
                    return self._combine([self.apply_callable(f, [x], {}, ctx) for x in values])
                return self._bind(self.ev(vn, ctx), go_values)
            return self._bind(self.ev(n[1], ctx), go_f)
        if k == "flat_map":
            inner = ["map", ["taskval", n[1]], n[2]]
            # flat_map is a regular task: flatten(map_(a_task, values)); its args are evaluated first
            return self._bind(self.ev(n[2], ctx), lambda values: self._bind(
                self.ev(["map", ["taskval", n[1]], ["val", values]], ctx),
                lambda lol: self._pure(lambda: [x for lst in lol for x in lst])))
        if k in ("apply_func", "as_task"):
            return self._bind(self._all(n[2], ctx), lambda args: self._pure(lambda: T.PYFUNCS[n[1]](*args)))
        if k == "partial":
            return self._bind(self._all(list(n[2]) + list(n[3]), ctx),
                              lambda args: self.apply_task(n[1], list(args), {}, {}, ctx))
        if k == "fork":
            # the thread value itself; joined by ["join", ...]
            return [("v", ("__thread__", n[1], ctx))]
        if k == "join":
            def go_join(th):
                return self.ev(th[1], th[2])
            return self._bind(self.ev(n[1], ctx), go_join)
        if k == "apply_tags":
            return self.ev(n[1], ctx)
        if k == "getctx":
            return [("v", ctx_lookup(ctx, n[1], n[2]))]
        if k == "noprov":
            return self.ev(n[1], ctx)
        raise ValueError("unknown node %r" % (k,))

    def _combine(self, outs):
        total = 1
        for o in outs:
            total *= len(o)
        if total > 4096:
            raise RefTooBig()
        res = []
        for combo in itertools.product(*outs):
            errs = [c for c in combo if c[0] == "e"]
            if errs:
                for e in errs:
                    self._add(res, e)
            else:
                self._add(res, ("v", [c[1] for c in combo]))
        return res

    def cont(self, kind, items, ctx):
        if kind == "dict":
            flat = [x for pair in items for x in pair]
            def mk(vals):
                return self._pure(lambda: {vals[i]: vals[i + 1] for i in range(0, len(vals), 2)})
            return self._bind(self._all(flat, ctx), mk)
        def mk2(vals):
            if kind == "list":
                return [("v", list(vals))]
            if kind == "tuple":
                return [("v", tuple(vals))]
            if kind == "set":
                return self._pure(lambda: set(vals))
            if kind == "nt":
                return [("v", T.NT(*vals))]
            if kind == "dc":
                return [("v", T.DC(*vals))]
            raise ValueError(kind)
        return self._bind(self._all(items, ctx), mk2)

    def cond(self, clauses, i, ctx):
        def go(c):
            if c:
                return self.ev(clauses[i + 1], ctx)
            if len(clauses) - i == 3:
                return self.ev(clauses[i + 2], ctx)
            return self.cond(clauses, i + 2, ctx)
        return self._bind(self.ev(clauses[i], ctx), go)

    def seq(self, exprs, i, acc, ctx):
        if i >= len(exprs):
            return [("v", list(acc))]
        return self._bind(self.ev(exprs[i], ctx), lambda v: self.seq(exprs, i + 1, acc + [v], ctx))

    def catch(self, n, ctx):
        res = []
        for o in self.ev(n[1], ctx):
            if o[0] == "v":
                self._add(res, o)
                continue
            err = o[1]
            handled = False
            for names, rec in n[2]:
                if isinstance(err, tuple(T.ERRORS[x] for x in names)):
                    handled = True
                    for r in self.apply_task(rec, [err], {}, {}, ctx):
                        self._add(res, r)
                    break
            if not handled:
                self._add(res, o)
        return res

    def catch_all(self, n, ctx):
        cont = n[1]
        kind, items = cont[1], cont[2]
        flat = [x for pair in items for x in pair] if kind == "dict" else list(items)
        outs = [self.ev(x, ctx) for x in flat]
        total = 1
        for o in outs:
            total *= len(o)
        if total > 1024:
            raise RefTooBig()
        res = []
        for combo in itertools.product(*outs):
            errs = [c[1] for c in combo if c[0] == "e"]
            vals = [c[1] for c in combo]  # values and error objects in place

            def rebuild():
                if kind == "dict":
                    return {vals[i]: vals[i + 1] for i in range(0, len(vals), 2)}
                return {"list": list, "tuple": tuple, "set": set}.get(kind, list)(vals) \
                    if kind in ("list", "tuple", "set") else (T.NT(*vals) if kind == "nt" else T.DC(*vals))
            if not errs:
                for r in self._pure(rebuild):
                    self._add(res, r)
            elif not n[3]:
                self._add(res, ("e", errs[0]))
            else:
                cls = tuple(T.ERRORS[x] for x in n[2])
                if all(isinstance(e, cls) for e in errs):
                    built = self._pure(rebuild)
                    for b in built:
                        if b[0] == "e":
                            self._add(res, b)
                        else:
                            for r in self.apply_task(n[3], [b[1]], {}, {}, ctx):
                                self._add(res, r)
                else:
                    self._add(res, ("e", next(e for e in errs if not isinstance(e, cls))))
        return res

    # task application ------------------------------------------------------------------------
    def call(self, name, args, kwargs, opts, ctx):
        keys = sorted(kwargs)
        return self._bind(self._all(list(args) + [kwargs[k] for k in keys], ctx),
                          lambda vals: self.apply_task(name, list(vals[:len(args)]),
                                                       dict(zip(keys, vals[len(args):])), opts, ctx))

    def apply_callable(self, f, args, kwargs, ctx):
        from redun.task import Task
        if isinstance(f, tuple) and f and f[0] == "__partial__":
            return self._bind(self._all(f[2], ctx),
                              lambda b: self.apply_task(f[1], list(b) + list(args), kwargs, {}, ctx))
        if isinstance(f, Task):
            name = f.name
            return self.apply_task(name, args, kwargs, {}, ctx)
        return self._pure(lambda: f(*args, **kwargs))

    def apply_callable_nodes(self, f, arg_nodes, ctx):
        """Call f with argument *expressions*: they are evaluated concurrently with a partial's bound arguments."""
        if isinstance(f, tuple) and f and f[0] == "__partial__":
            nb = len(f[2])
            return self._bind(self._all(list(f[2]) + list(arg_nodes), ctx),
                              lambda vals: self.apply_task(f[1], list(vals), {}, {}, ctx))
        return self._bind(self._all(list(arg_nodes), ctx), lambda vals: self.apply_callable(f, list(vals), {}, ctx))

    def apply_task(self, name, args, kwargs, opts, ctx):
        ov = ctx_override(opts)
        jctx = merge_ctx(ctx, ov) if ov else ctx
        # expression-valued defaults are evaluated in the callee's context
        dflts = T.DEFAULTS.get(name, {})
        if dflts:
            import inspect
            sig = inspect.signature(T.LEAF[name])
            names = list(sig.parameters)
            missing = [p for i, p in enumerate(names) if i >= len(args) and p not in kwargs and p in dflts]
            if missing:
                return self._bind(self._all([dflts[p] for p in missing], jctx),
                                  lambda vals: self._apply2(name, args, {**dict(zip(missing, vals)), **kwargs}, jctx))
        return self._apply2(name, args, kwargs, jctx)

    def _apply2(self, name, args, kwargs, jctx):
        self.calls.append((name, repr(tuple(args))))
        if name in T.TEMPLATE:
            try:
                body = T.TEMPLATE[name](*args, **kwargs)
            except Exception as e:
                return [("e", e)]
            return self.ev(body, jctx)
        fn = T.LEAF[name]
        return self._pure(lambda: fn(*args, **kwargs))


def _okey(o):
    if o[0] == "e":
        return ("e", type(o[1]).__name__, str(o[1]))
    return ("v", repr(canon_ref(o[1])))


def canon_ref(v):
    """canon() for reference-interpreter values (which may hold thread/partial markers)."""
    if isinstance(v, tuple) and v and v[0] == "__thread__":
        return ["thread"]
    if isinstance(v, tuple) and v and v[0] == "__partial__":
        return ["task", "vwf." + v[1]]
    t = type(v)
    if t is list:
        return ["list", [canon_ref(x) for x in v]]
    if t is tuple:
        return ["tuple", [canon_ref(x) for x in v]]
    if isinstance(v, tuple) and hasattr(v, "_fields"):
        return ["nt:" + t.__name__, [canon_ref(x) for x in v]]
    if t in (set, frozenset):
        return [t.__name__, sorted((canon_ref(x) for x in v), key=repr)]
    if t is dict:
        return ["dict", sorted(([canon_ref(a), canon_ref(b)] for a, b in v.items()), key=repr)]
    if dataclasses.is_dataclass(t) and not isinstance(v, type):
        return ["dc:" + t.__name__, [[f.name, canon_ref(getattr(v, f.name))] for f in dataclasses.fields(v)]]
    return canon(v)


def expected_outcomes(ast, context=None):
    """Set of acceptable outcome keys: ("v", canonical repr) / ("e", type, message)."""
    ref = Ref(context)
    outs = ref.run(ast)
    return {_okey(o) for o in outs}, ref.calls


def observed_outcome(fn):
    """Run fn() -> result; returns the outcome key and the raw value/exception."""
    try:
        v = fn()
    except Exception as e:
        return ("e", type(e).__name__, str(e)), e
    return ("v", repr(canon(v))), v


# ---- context model (independent of redun.utils.merge_dicts / redun.context) --------------------
def merge_ctx(base, override):
    if not isinstance(base, dict) or not isinstance(override, dict):
        return override
    out = dict(base)
    for k, v in override.items():
        if k in out:
            out[k] = merge_ctx(out[k], v)
        else:
            out[k] = v
    return out


def ctx_lookup(ctx, path, default):
    cur = ctx
    for part in path.split("."):
        if not isinstance(cur, dict) or part not in cur:
            return default
        cur = cur[part]
    return cur


# =================================================================================================
# feature extraction (for coverage histograms / non-triviality)
# =================================================================================================
def features(n, acc=None, parent=None):
    acc = acc if acc is not None else {"calls": 0, "kinds": set(), "pairs": set(), "errors": 0}
    k = n[0]
    if k == "val":
        return acc
    tag = k if k != "cont" else "cont:" + n[1]
    if k == "call":
        acc["calls"] += 1
        tag = "call:" + n[1] if n[1] in T.TEMPLATE or n[1] in ("fail", "fail_if", "dflt", "dflt_ctx", "a_fail") else "call"
        if n[1] in ("fail", "a_fail", "deep_fail"):
            acc["errors"] += 1
    acc["kinds"].add(tag)
    if parent:
        acc["pairs"].add(parent + ">" + tag)
    for c in children(n):
        features(c, acc, tag)
    return acc


def children(n):
    k = n[0]
    if k == "call":
        return list(n[2]) + list(n[3].values())
    if k == "cont":
        return [x for p in n[2] for x in p] if n[1] == "dict" else list(n[2])
    if k == "op":
        return [n[2], n[3]]
    if k in ("getitem", "getattr", "fork", "join", "noprov", "apply_tags"):
        return [n[1]]
    if k == "calle":
        return [n[1]] + list(n[2])
    if k in ("cond", "seq"):
        return list(n[1])
    if k == "catch":
        return [n[1]]
    if k == "catch_all":
        return [n[1]]
    if k == "map":
        return [n[1], n[2]]
    if k == "flat_map":
        return [n[2]]
    if k in ("apply_func", "as_task"):
        return list(n[2])
    if k == "merge_handles":
        return list(n[1])
    if k == "partial":
        return list(n[2]) + list(n[3])
    if k == "partialval":
        return list(n[2])
    return []


def task_names(n, acc=None):
    acc = acc if acc is not None else set()
    if n[0] == "call":
        acc.add(n[1])
    for c in children(n):
        task_names(c, acc)
    return acc


def map_calls(n, fn):
    """Copy of the AST with fn applied to every call node (used to assign modes / limits)."""
    k = n[0]
    if k == "val":
        return n
    if k == "call":
        m = ["call", n[1], [map_calls(a, fn) for a in n[2]], {kk: map_calls(v, fn) for kk, v in n[3].items()},
             dict(n[4]) if len(n) > 4 else {}]
        return fn(m)
    if k == "cont":
        if n[1] == "dict":
            return ["cont", "dict", [[map_calls(a, fn), map_calls(b, fn)] for a, b in n[2]]]
        return ["cont", n[1], [map_calls(a, fn) for a in n[2]]]
    if k == "op":
        return ["op", n[1], map_calls(n[2], fn), map_calls(n[3], fn)]
    if k in ("getitem", "getattr"):
        return [k, map_calls(n[1], fn), n[2]]
    if k == "calle":
        return [k, map_calls(n[1], fn), [map_calls(a, fn) for a in n[2]]]
    if k in ("cond", "seq"):
        return [k, [map_calls(a, fn) for a in n[1]]]
    if k == "catch":
        return [k, map_calls(n[1], fn), n[2]]
    if k == "catch_all":
        return [k, map_calls(n[1], fn), n[2], n[3]]
    if k == "map":
        return [k, map_calls(n[1], fn), map_calls(n[2], fn)]
    if k == "flat_map":
        return [k, n[1], map_calls(n[2], fn)]
    if k in ("apply_func", "as_task"):
        return [k, n[1], [map_calls(a, fn) for a in n[2]]]
    if k == "partial":
        return [k, n[1], [map_calls(a, fn) for a in n[2]], [map_calls(a, fn) for a in n[3]]]
    if k == "partialval":
        return [k, n[1], [map_calls(a, fn) for a in n[2]]]
    if k in ("fork", "join", "noprov"):
        return [k, map_calls(n[1], fn)]
    if k == "merge_handles":
        return [k, [map_calls(a, fn) for a in n[1]]]
    if k == "apply_tags":
        return [k, map_calls(n[1], fn), n[2], n[3], n[4]]
    return n


# =================================================================================================
# generator
# =================================================================================================
class Gen:
    def __init__(self, rnd, max_depth=4, fan=3, err_budget=2, feature_weights=None, allow=None):
        self.rnd = rnd
        self.max_depth = max_depth
        self.fan = fan
        self.err_budget = err_budget
        self.allow = allow  # None = everything; else a set of production names
        self.uid = 0
        self.pool = []  # sub-expressions generated so far (re-emitted as equal-hash duplicates)

    def ok(self, name):
        return self.allow is None or name in self.allow

    def small(self):
        return self.rnd.choice([0, 1, 2, 3, 5, 7, -1, -4, 10])

    def lit(self):
        return ["val", self.small()]

    def fail_leaf(self):
        self.err_budget -= 1
        self.uid += 1
        kind = self.rnd.choice(["VErr", "VErr", "VErrB", "VErrSub", "ValueError", "KeyError"])
        return ["call", "fail", [["val", kind], ["val", "boom%d" % self.uid]], {}, {}]

    def int_expr(self, d):
        """An AST that evaluates to an int (or fails)."""
        e = self._int_expr(d)
        if e[0] != "val" and len(self.pool) < 8 and self.rnd.random() < 0.35:
            self.pool.append(e)
        return e

    def reuse(self):
        import json
        return json.loads(json.dumps(self.rnd.choice(self.pool)))

    def _int_expr(self, d):
        rnd = self.rnd
        if self.pool and self.ok("reuse") and rnd.random() < 0.12:
            # the same expression again (equal hash): merged when reached from the same parent job
            return self.reuse()
        if d <= 0:
            return self.lit() if rnd.random() < 0.5 else ["call", rnd.choice(["inc", "neg", "ident"]), [self.lit()], {}, {}]
        prods = ["leafcall", "leafcall", "leafcall", "inc2", "op", "rop", "getitem", "getattr", "cond", "catch",
                 "partial", "apply_func", "as_task", "seqidx", "sumlist", "calle", "rec", "thread", "dflt",
                 "apply_tags", "kwonly", "varargs", "lazy_cond", "noprov", "dictget", "lit", "cmp"]
        if self.err_budget > 0:
            prods += ["fail", "fail_if", "deep_fail"]
        prods = [p for p in prods if self.ok(p)]
        p = rnd.choice(prods)
        sub = lambda: self.int_expr(d - 1)  # noqa: E731
        if p == "lit":
            return self.lit()
        if p == "leafcall":
            name = rnd.choice(["add", "mul", "neg", "inc", "ident", "add"])
            n = 2 if name in ("add", "mul") else 1
            if name == "add" and rnd.random() < 0.3:
                return ["call", "add", [sub()], {"b": sub()}, {}]
            return ["call", name, [sub() for _ in range(n)], {}, {}]
        if p == "inc2":
            return ["call", "inc2", [sub()], {}, {}]
        if p == "op":
            return ["op", rnd.choice(["add", "sub", "mul"]), self.call_expr(d - 1), sub()]
        if p == "rop":
            return ["op", rnd.choice(["radd", "rsub", "rmul"]), self.lit(), self.call_expr(d - 1)]
        if p == "cmp":
            # comparison result used through cond
            return ["cond", [["op", rnd.choice(["lt", "ge", "eq", "ne"]), self.call_expr(d - 1), self.lit()], sub(), sub()]]
        if p == "getitem":
            lst = self.list_expr(d - 1, force_call=True, minlen=1)
            return ["getitem", lst, 0]
        if p == "getattr":
            kind = rnd.choice(["mknt", "mkdc"])
            return ["getattr", ["call", kind, [sub(), sub()], {}, {}], rnd.choice(["a", "b"])]
        if p == "dictget":
            return ["getitem", ["call", "mkdict", [["val", "key"], sub()], {}, {}], "key"]
        if p == "cond":
            n = rnd.choice([1, 1, 2])
            clauses = []
            for _ in range(n):
                clauses += [["call", "isodd", [sub()], {}, {}], sub()]
            clauses.append(sub())
            return ["cond", clauses]
        if p == "catch":
            body = self.fail_leaf() if self.err_budget > 0 and rnd.random() < 0.6 else sub()
            if self.pool and rnd.random() < 0.3:
                body = self.reuse()
            elif body[0] != "val" and len(self.pool) < 8:
                self.pool.append(body)  # the guarded expression may re-appear unguarded elsewhere
            if rnd.random() < 0.4 and body[0] == "call" and body[1] == "fail":
                body = ["call", "add", [body, sub()], {}, {}]
            handlers = []
            for _ in range(rnd.choice([1, 1, 2])):
                names = rnd.choice([["VErr"], ["VErrB"], ["VErr", "ValueError"], ["Exception"], ["KeyError"]])
                rec = rnd.choice(["recov_const", "recov_const", "recov_reraise", "recov_other"])
                handlers.append([names, rec])
            return ["catch", body, handlers]
        if p == "partial":
            return ["partial", "add", [sub()], [sub()]]
        if p == "apply_func":
            return ["apply_func", "py_add", [sub(), sub()]]
        if p == "as_task":
            return ["as_task", "py_max", [sub(), sub(), sub()]]
        if p == "seqidx":
            k = rnd.randint(1, self.fan)
            return ["getitem", ["seq", [sub() for _ in range(k)]], rnd.randrange(k)]
        if p == "sumlist":
            return ["call", "sumlist", [self.list_expr(d - 1)], {}, {}]
        if p == "calle":
            return ["calle", ["call", "ret_task", [["val", rnd.choice(["neg", "inc"])]], {}, {}], [sub()]]
        if p == "rec":
            return ["call", "rec", [["val", rnd.randint(0, 3)], sub()], {}, {}]
        if p == "thread":
            return ["call", "thread_roundtrip", [sub()], {}, {}]
        if p == "dflt":
            r = rnd.random()
            if r < 0.4:
                return ["call", "dflt", [sub()], {}, {}]
            if r < 0.7:
                return ["call", "dflt", [sub()], {"y": sub()}, {}]
            return ["call", "dflt", [sub(), sub()], {}, {}]
        if p == "apply_tags":
            return ["apply_tags", sub(), [["tk", "tv"]], [["jk", 1]], []]
        if p == "kwonly":
            kw = {}
            if rnd.random() < 0.6:
                kw["b"] = sub()
            if rnd.random() < 0.4:
                kw["c"] = sub()
            return ["call", "kwonly", [sub()], kw, {}]
        if p == "varargs":
            return ["call", "varargs", [sub() for _ in range(rnd.randint(1, 3))], {"k": self.lit()} if rnd.random() < 0.5 else {}, {}]
        if p == "lazy_cond":
            return ["call", "lazy_cond", [sub()], {}, {}]
        if p == "noprov":
            return ["noprov", sub()]
        if p == "fail":
            return self.fail_leaf()
        if p == "deep_fail":
            self.err_budget -= 1
            self.uid += 1
            return ["getitem", ["call", "deep_fail", [["val", rnd.randint(0, 2)], ["val", rnd.choice(["VErr", "VErrB", "KeyError"])],
                                                       ["val", "deep%d" % self.uid]], {}, {}], 1]
        if p == "fail_if":
            self.err_budget -= 1
            return ["call", "fail_if", [sub(), ["val", rnd.choice([0, 3, 100])]], {}, {}]
        raise ValueError(p)

    def call_expr(self, d):
        """An int-valued AST that is certainly a lazy expression (not a literal)."""
        e = self.int_expr(d)
        if e[0] in ("val",):
            return ["call", "ident", [e], {}, {}]
        return e

    def list_expr(self, d, force_call=False, minlen=0):
        rnd = self.rnd
        prods = ["fan", "map", "flat_map", "mklist", "seq", "catch_all", "twice", "mapmap"]
        if self.err_budget > 0:
            prods.append("guardbare")
        if not force_call:
            prods += ["cont", "cont"]
        prods = [p for p in prods if self.ok(p)] or ["mklist"]
        p = rnd.choice(prods) if d > 0 else ("mklist" if force_call else "cont")
        sub = lambda: self.int_expr(max(d - 1, 0))  # noqa: E731
        n = rnd.randint(max(minlen, 0 if minlen == 0 else 1), self.fan) if self.fan >= max(minlen, 1) else minlen
        n = max(n, minlen)
        if p == "guardbare":
            # the same (possibly failing) expression once guarded by catch and once bare, under one parent
            import json
            x = self.fail_leaf() if rnd.random() < 0.7 else sub()
            if rnd.random() < 0.4:
                x = ["call", "add", [x, self.lit()], {}, {}]
            guarded = ["catch", json.loads(json.dumps(x)), [[["Exception"], "recov_const"]]]
            bare = json.loads(json.dumps(x))
            if x[0] == "call" and x[1] == "fail" and self.ok("deep_fail") and rnd.random() < 0.5:
                # the equal failing call made from beneath another parent job (a different expression): its failure is
                # then looked up among the results of this execution instead of being collapsed onto the first expression
                bare = ["call", "deep_fail", [["val", 0], x[2][0], x[2][1]], {}, {}]
            items = [guarded, bare]
            if rnd.random() < 0.5:
                items.reverse()
            return ["seq", items] if rnd.random() < 0.5 else ["call", "mklist", items, {}, {}]
        if p == "cont":
            return ["cont", "list", [sub() for _ in range(n)]]
        if p == "mklist":
            return ["call", "mklist", [sub() for _ in range(max(n, 1))], {}, {}]
        if p == "fan":
            return ["call", "fan", [["val", max(n, 1)], sub()], {}, {}]
        if p == "map":
            f = rnd.choice([["taskval", "inc"], ["taskval", "neg"], ["partialval", "add", [sub()]], ["taskval", "inc2"]])
            return ["map", f, self.list_expr(d - 1, minlen=minlen)]
        if p == "mapmap":
            return ["map", ["taskval", "inc"], ["map", ["taskval", "neg"], self.list_expr(d - 1, minlen=minlen)]]
        if p == "flat_map":
            return ["flat_map", "dup", self.list_expr(d - 1, minlen=minlen)]
        if p == "seq":
            return ["seq", [sub() for _ in range(max(n, 1))]]
        if p == "twice":
            return ["call", "twice_same", [sub()], {}, {}]
        if p == "catch_all":
            items = [sub() for _ in range(max(n, 1))]
            if self.err_budget > 0:
                items[rnd.randrange(len(items))] = self.fail_leaf()
                if self.err_budget > 0 and rnd.random() < 0.4:
                    items.append(self.fail_leaf())
            r = rnd.random()
            if r < 0.5:
                # recover returns a list [tag, n_err, good values]; keep list-typed: wrap
                return ["getitem", ["catch_all", ["cont", "list", items], ["VErr", "VErrB", "ValueError", "KeyError"], "count_errs"], 2]
            if r < 0.7:
                return ["catch_all", ["cont", "list", items], ["VErr"], "raise_count"]
            return ["catch_all", ["cont", "list", items], None, None]
        raise ValueError(p)

    def any_expr(self, d):
        rnd = self.rnd
        r = rnd.random()
        if r < 0.45:
            return self.int_expr(d)
        if r < 0.7:
            return self.list_expr(d)
        kind = rnd.choice(["tuple", "dict", "nt", "dc", "set", "nested", "nest_dict"])
        if not self.ok("containers"):
            return self.int_expr(d)
        sub = lambda: self.int_expr(d - 1)  # noqa: E731
        if kind == "tuple":
            return ["cont", "tuple", [sub() for _ in range(rnd.randint(0, self.fan))]]
        if kind == "dict":
            return ["cont", "dict", [[rnd.choice([["val", "k%d" % i], sub()]), sub()] for i in range(rnd.randint(0, self.fan))]]
        if kind == "nt":
            return ["cont", "nt", [sub(), self.list_expr(d - 1)]]
        if kind == "dc":
            return ["cont", "dc", [sub(), ["cont", "tuple", [sub(), sub()]]]]
        if kind == "set":
            return ["cont", "set", [sub() for _ in range(rnd.randint(0, self.fan))]]
        if kind == "nest_dict":
            return ["call", "nest_dict", [sub()], {}, {}]
        return ["cont", "list", [["cont", "dict", [[["val", "a"], sub()], [["val", "b"], ["cont", "tuple", [sub(), self.list_expr(d - 1)]]]]], sub()]]

    def program(self):
        d = self.rnd.randint(1, self.max_depth)
        return self.any_expr(d)
