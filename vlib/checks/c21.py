"""C21 — upstream dataflow of arguments is recorded.

Monitor: generated dataflow programs pass results of uniquely identifiable producer calls into sink
tasks directly and through lazy operators, getitem/getattr, containers, cond (taken branch), catch
(recover path), seq elements and map_.  After the run the argument / argument_result rows of every sink
call are read back.  Oracle: recorded argument values == values the sink received (defaulted parameters
as keyword arguments); upstream links satisfy required <= recorded <= allowed, where required = producers
on the actual dataflow path and allowed = all evaluated calls syntactically inside the argument.
"""
import random

import sqlalchemy
from redun import catch, cond, task
from redun.functools import seq

from vlib import ctl, engine, trace, wf_tasks

PROPERTY = "C21"
LEVEL = "exploration"
RULE = ("programs with 1-3 sink calls (signatures with defaults, *args, keyword-only), each argument built from one of "
        "12 dataflow forms over producer calls with unique ids; executed under sampled schedules, with and without a "
        "warm cache.  Non-trivial = distinct program with >=2 different argument forms.")
ASSUMPTIONS = ["producer calls are identified by their unique integer argument"]

T = {}


class Boom(Exception):
    pass


def _def():
    import collections
    NT = collections.namedtuple("C21NT", ["a", "b"])
    globals()["C21NT"] = NT

    def src(uid):
        trace.enter("src", uid)
        return uid * 10

    def srcd(uid):
        trace.enter("srcd", uid)
        return {"k": uid, "l": [uid, uid + 1]}

    def srcnt(uid):
        trace.enter("srcnt", uid)
        return NT(uid, uid + 1)

    def srcfail(uid):
        trace.enter("srcfail", uid)
        raise Boom("boom %d" % uid)

    def recov(err):
        trace.enter("recov", str(err))
        return -5

    def isodd(x):
        return x % 2 == 1

    def chain(uid):
        trace.enter("chain", uid)
        return T["src"](uid)          # nested call: the upstream of a consumer is the chain call

    def sink2(tag, a, b=7):
        trace.enter("sink2", tag)
        return ["sink2", tag]

    def sink3(tag, a, *rest, kw=1):
        trace.enter("sink3", tag)
        return ["sink3", tag]

    for f in (src, srcd, srcnt, srcfail, recov, isodd, chain, sink2, sink3):
        f.__module__ = __name__
        T[f.__name__] = task(name=f.__name__, namespace="c21", source="c21:%s" % f.__name__)(f)


_def()

LAST = [None]
FORMS = ["direct", "op", "rop", "getitem", "getattr", "list", "dict", "nested", "cond", "catch", "seq", "map", "chain", "lit"]


def gen_arg(rnd, uid, force=None):
    """Returns (form, build() -> expression, required uids, allowed uids, uids used).  force=(form, u) builds a second,
    distinct expression object for the same producer call (a duplicate within one parent job)."""
    if force:
        f, u = force
    else:
        f = rnd.choice(FORMS)
        u = uid[0]
        uid[0] += 3
    LAST[0] = (f, u)
    if f == "direct":
        return f, lambda: T["src"](u), {("src", u)}, {("src", u)}
    if f == "op":
        return f, lambda: T["src"](u) + 1, {("src", u)}, {("src", u)}
    if f == "rop":
        return f, lambda: 100 - T["src"](u) * 2, {("src", u)}, {("src", u)}
    if f == "getitem":
        return f, lambda: T["srcd"](u)["l"][0], {("srcd", u)}, {("srcd", u)}
    if f == "getattr":
        return f, lambda: T["srcnt"](u).b, {("srcnt", u)}, {("srcnt", u)}
    if f == "list":
        return f, lambda: [T["src"](u), 5, T["src"](u + 1)], {("src", u), ("src", u + 1)}, {("src", u), ("src", u + 1)}
    if f == "dict":
        return f, lambda: {"x": T["src"](u), "y": (T["srcnt"](u + 1).a, 2)}, {("src", u), ("srcnt", u + 1)}, {("src", u), ("srcnt", u + 1)}
    if f == "nested":
        return f, lambda: [[T["srcd"](u)["k"] + T["src"](u + 1)]], {("srcd", u), ("src", u + 1)}, {("srcd", u), ("src", u + 1)}
    if f == "cond":
        # src(u)*10 is odd iff never; use isodd on the uid itself via a producer
        taken = u + 1 if (u * 10) % 2 == 1 else u + 2
        return (f, lambda: cond(T["isodd"](T["src"](u)), T["src"](u + 1), T["src"](u + 2)),
                {("src", taken)}, {("src", u), ("src", u + 1), ("src", u + 2), ("isodd", u * 10)})
    if f == "catch":
        return (f, lambda: catch(T["srcfail"](u), Boom, T["recov"]), set(), {("srcfail", u), ("recov", None)})
    if f == "seq":
        return f, lambda: seq([T["src"](u), T["src"](u + 1)])[1], {("src", u + 1)}, {("src", u), ("src", u + 1)}
    if f == "map":
        from redun.functools import map_
        return f, lambda: map_(T["src"], [u, u + 1]), {("src", u), ("src", u + 1)}, {("src", u), ("src", u + 1)}
    if f == "chain":
        return f, lambda: T["chain"](u), {("chain", u)}, {("chain", u), ("src", u)}
    return f, lambda: u, set(), set()


def gen_program(rnd):
    uid = [1 + 100 * rnd.randint(0, 50)]
    sinks = []
    for tag in range(rnd.randint(1, 3)):
        kind = rnd.choice(["sink2", "sink2d", "sink3", "sink3k"])
        nargs = {"sink2": 2, "sink2d": 1, "sink3": rnd.randint(1, 3), "sink3k": rnd.randint(1, 2)}[kind]
        args = []
        for k in range(nargs):
            if k > 0 and prev[0] in ("direct", "op", "getitem", "getattr", "list") and rnd.random() < 0.35:
                a = gen_arg(rnd, uid, force=prev)     # the same producer call again, as another expression object
                a = ("dup-" + a[0],) + tuple(a[1:])
            else:
                a = gen_arg(rnd, uid)
            prev = LAST[0]
            args.append(a)
        kw = gen_arg(rnd, uid) if kind == "sink3k" else None
        sinks.append((kind, tag, args, kw))
    return sinks


def build(sinks):
    out = []
    for kind, tag, args, kw in sinks:
        t = T["sink2"] if kind.startswith("sink2") else T["sink3"]
        kwargs = {"kw": kw[1]()} if kw else {}
        out.append(t(tag, *[a[1]() for a in args], **kwargs))
    return out


def run_case(ctx, rnd, backend, where):
    sinks = gen_program(rnd)
    forms = sorted({a[0] for _, _, args, kw in sinks for a in args + ([kw] if kw else [])})
    ctx.ev()
    if len(forms) >= 2:
        ctx.nontrivial([(k, t, [a[0] for a in args], kw[0] if kw else None) for k, t, args, kw in sinks])
    name, ch = engine.choosers(rnd, 6)[rnd.randrange(6)]
    out, c, s = engine.run_controlled(build(sinks), ch, backend=backend, cache=True)
    wit = {"sinks": [[k, t, [a[0] for a in args], kw[0] if kw else None] for k, t, args, kw in sinks], "schedule": name, "where": where}
    if out[0] != "v":
        if out[0] == "e" and engine.is_db_failure(out[1]):
            return engine.new_backend()
        ctx.violation("run-failed", "%r" % (engine.outcome_key(out),), wit)
        return backend
    ses = s.backend.session
    reg = s.type_registry
    q = lambda sql, **kw: ses.execute(sqlalchemy.text(sql), kw).fetchall()  # noqa: E731
    # producer identity: (task short name, uid) -> call hash
    prod = {}
    recov_calls = set()
    for j in c.job_order:
        info = c.jobs[j]
        if info.get("first_arg_known"):
            prod[(info["task"].split(".")[-1], info["first_arg"])] = info.get("call_hash")
        if info["task"] == "c21.recov":
            recov_calls.add(info.get("call_hash"))
    # a recovery replayed from an earlier execution on the same backend (the catch expression is served from the cache
    # without a recov job in this execution) is still the producer of the argument
    try:
        recov_calls |= {r[0] for r in q("select call_hash from call_node where task_name like '%recov'")}
        ctx.count("recov_call_nodes_known", len(recov_calls))
    except Exception:
        pass
    for kind, tag, args, kw in sinks:
        sink_info = next((c.jobs[j] for j in c.job_order if c.jobs[j]["task"].startswith("c21.sink") and c.jobs[j].get("first_arg") == tag
                          and c.jobs[j]["task"].endswith(kind[:5])), None)
        if not sink_info or not sink_info.get("call_hash"):
            ctx.violation("sink-not-recorded", "sink %s tag %s has no call hash" % (kind, tag), wit)
            continue
        ch_ = sink_info["call_hash"]
        rows = q("select arg_hash, arg_position, arg_key, value_hash from argument where call_hash=:c", c=ch_)
        recorded = {(r[1] if r[1] is not None else r[2]): (r[0], r[3]) for r in rows}
        ea = sink_info["eval_args"]
        received = {i: reg.get_hash(v) for i, v in enumerate(ea[0])}
        received.update({k: reg.get_hash(v) for k, v in ea[1].items()})
        ctx.count("sink_calls_checked")
        if {k: v[1] for k, v in recorded.items()} != received:
            ctx.violation("recorded-arguments-differ-from-received", "sink %s: recorded %r, received %r" % (
                kind, sorted((str(k), v[1][:6]) for k, v in recorded.items()), sorted((str(k), v[:6]) for k, v in received.items())), wit)
            continue
        # defaulted parameters as keyword arguments
        if kind == "sink2d" and "b" not in recorded:
            ctx.violation("default-not-recorded-as-keyword", "sink2(tag, a): default b not recorded under key 'b'", wit)
        if kind in ("sink3", "sink3k") and kind == "sink3" and "kw" not in recorded:
            ctx.violation("default-not-recorded-as-keyword", "sink3: default kw not recorded under key 'kw'", wit)
        # upstream links per argument
        specs = [(i + 1, a) for i, a in enumerate(args)] + ([("kw", kw)] if kw else [])
        for key, (form, _, required, allowed) in specs:
            if key not in recorded:
                ctx.violation("argument-row-missing", "argument %r of sink %s not recorded" % (key, kind), wit)
                continue
            ups = {r[0] for r in q("select result_call_hash from argument_result where arg_hash=:a", a=recorded[key][0])}
            req = {prod.get(p) for p in required}
            alw = {prod.get(p) for p in allowed if p[0] != "recov"}
            if any(p[0] == "recov" for p in allowed):
                alw |= recov_calls
            ctx.count("arguments_checked")
            ctx.count("form_" + form)
            if None in req:
                ctx.count("producer_not_identified")
                continue
            missing = req - ups
            extra = ups - alw
            if missing:
                ctx.violation("upstream-link-missing:" + form, "argument form %s: producers %r not linked" % (
                    form, sorted(p for p in required if prod.get(p) in missing)), dict(wit, form=form))
            if extra:
                names = [str(r[0]) for e_ in sorted(extra) for r in q("select task_name from call_node where call_hash=:c", c=e_)]
                ctx.violation("upstream-link-spurious:" + form, "argument form %s: %d link(s) to calls outside the argument (%s)" % (
                    form, len(extra), ", ".join(names)), dict(wit, form=form))
    return backend


def shard(ctx, n, sub):
    rnd = random.Random("%s-%s-c21" % (ctx.seed, sub))
    backend = engine.new_backend()
    for i in range(n):
        if rnd.random() < 0.3:
            backend = engine.new_backend()
        backend = run_case(ctx, rnd, backend, {"seed": ctx.seed, "sub": sub, "i": i})
    ctx.sample({"forms": FORMS})


def main(ctx):
    n = ctx.pick(12, 250)
    ctx.shards("shard", [{"n": n, "sub": s} for s in range(16)], timeout=ctx.pick(600, 3400))
    ctx.require("arguments_checked", 300)
    for f in FORMS:
        if f != "lit":
            ctx.require("form_" + f, 5)


def replay(ctx, witness):
    w = witness["where"]
    from vlib.core import Ctx
    rnd = random.Random("%s-%s-c21" % (w["seed"], w["sub"]))
    backend = engine.new_backend()
    for i in range(w["i"] + 1):
        if rnd.random() < 0.3:
            backend = engine.new_backend()
        backend = run_case(ctx if i == w["i"] else Ctx("C21", "quick", w["seed"]), rnd, backend, w)
