"""Subprocess entry point for one shard of a check."""
import importlib
import json
import sys

from vlib import core


def main():
    inp, out = sys.argv[1], sys.argv[2]
    with open(inp) as f:
        spec = json.load(f)
    mod = importlib.import_module("vlib.checks.%s" % spec["prop"].lower())
    ctx = core.Ctx(spec["prop"], spec["tier"], spec["seed"])
    getattr(mod, spec["func"])(ctx, **spec["args"])
    with open(out, "w") as f:
        json.dump(ctx.dump(), f, default=repr)


if __name__ == "__main__":
    main()
