"""C23 — record transfer between repositories preserves the call graph.

Differential monitor over real transfers: generated source repositories (several executions with
shared sub-calls, a failure, files, tags with add/update/delete history) are transferred to an empty
repository by `_sync_records` (the push/pull path) or by export -> JSON -> import, for root selections
{all, subset of executions}.  Oracles: row-level comparison of source and destination tables on the
closure of the roots; idempotence (second transfer returns 0, nothing changes, also in the opposite
direction); cache clause: after editing each task, the destination must re-execute at least what the
source re-executes and return the empty-backend result.
"""
import json
import os
import random
import shutil
import tempfile

from redun.backends.base import TagEntity

from vlib import dbaudit, engine, hist
from vlib.checks import c22

PROPERTY = "C23"
LEVEL = "exploration"
RULE = ("generated repositories: 2-5 executions over the vh family (top/deep/guarded/failing/pipeline programs, "
        "arguments drawn from a small range so that sub-calls are shared, some tasks check_valid=shallow), followed by "
        "0-6 tag operations (add/update/delete on executions, jobs and values); transfer mode in {sync, export-import}; "
        "roots in {all executions, random non-empty subset}.  Non-trivial = distinct (repository, mode, roots) with >=2 "
        "executions and >=1 superseded tag or >=1 shared call node.")
ASSUMPTIONS = ["SQLite on both sides", "handles and the single-reduction (evaluation) table are not part of a transfer by "
               "design; they are excluded from the row comparison"]

COMPARED = ["execution", "job", "call_node", "call_edge", "call_subtree_task", "argument", "argument_result", "value",
            "subvalue", "file", "task", "tag", "tag_edit"]
PROGRAMS = ["top", "deep", "guarded", "failing", "pipeline", "mix"]


def expr(prog, x, y, d):
    T = hist.T
    if prog == "top":
        return T["top"](x, y)
    if prog == "deep":
        return T["deep"](x)
    if prog == "guarded":
        return [T["guarded"](x), T["mid"](y)]
    if prog == "failing":
        return T["failing_parent"](x)
    if prog == "pipeline":
        return T["pipeline"](os.path.join(d, "o%d.txt" % x), "c%d" % y)
    return [T["top"](x, y), T["mid"](y), T["guarded"](y)]


def gen_repo(rnd):
    cfg = {n: {"variant": rnd.randrange(hist.NVARIANTS[n]), "versioned": rnd.random() < 0.3} for n in hist.BODY}
    for n in rnd.sample(["mid", "top", "deep"], rnd.randint(0, 2)):
        cfg[n]["options"] = {"check_valid": "shallow"}
    execs = [[rnd.choice(PROGRAMS), rnd.randint(0, 3), rnd.randint(0, 3)] for _ in range(rnd.randint(2, 5))]
    tagops = [[rnd.choice(["add", "update", "rm", "rmkey"]), rnd.randrange(4), rnd.choice(["k1", "k2"]),
               rnd.choice([1, "v", [1, 2]])] for _ in range(rnd.randint(0, 6))]
    def ops(lo, hi):
        return [[rnd.choice(["add", "update", "rm", "rmkey"]), rnd.randrange(4), rnd.choice(["k1", "k2"]),
                 rnd.choice([1, "v", [1, 2]])] for _ in range(rnd.randint(lo, hi))]
    execs2 = [[rnd.choice(PROGRAMS), rnd.randint(0, 3), rnd.randint(0, 3)] for _ in range(rnd.randint(0, 2))]
    return {"cfg": cfg, "execs": execs, "tagops": tagops, "execs2": execs2, "tagops2": ops(1, 5)}


def build_repo(spec, path, d, phase=1):
    """Phase 1 builds the repository; phase 2 adds executions and further tag edits to the same repository (so that a
    second transfer delivers children of tags and call nodes the destination already holds)."""
    import sqlalchemy
    hist.reset(spec["cfg"])
    backend = c22.open_backend(path)
    exec_ids, entities = [], []
    try:
        for prog, x, y in spec["execs" if phase == 1 else "execs2"]:
            hist.run(lambda: expr(prog, x, y, d), backend)
        rows = backend.session.execute(sqlalchemy.text("select id from execution order by id")).fetchall()
        exec_ids = [r[0] for r in rows]
        for e in exec_ids:
            for (jid,) in backend.session.execute(sqlalchemy.text(
                    "select id from job where execution_id=:e order by start_time, id limit 2"), {"e": e}).fetchall():
                entities.append((TagEntity.Job, jid))
        for e in exec_ids:
            entities.append((TagEntity.Execution, e))
        vals = backend.session.execute(sqlalchemy.text("select value_hash from value order by value_hash limit 2")).fetchall()
        for (v,) in vals:
            entities.append((TagEntity.Value, v))
        entities.sort(key=lambda e: (str(e[0]), e[1]))
        for kind, ei, k, v in spec["tagops" if phase == 1 else "tagops2"]:
            et, eid = entities[ei % len(entities)]
            if kind == "add":
                backend.record_tags(et, eid, [(k, v)], new=True)
            elif kind == "update":
                backend.record_tags(et, eid, [(k, v)], update=True)
            elif kind == "rm":
                backend.delete_tags(eid, [(k, v)])
            else:
                backend.delete_tags(eid, [], [k])
        backend.session.commit()
    finally:
        hist.close_backend(backend)
    return exec_ids


def transfer(src, dst, mode, roots):
    from redun.cli import RedunClient
    a, b = c22.open_backend(src), c22.open_backend(dst)
    try:
        if mode == "sync":
            n = RedunClient()._sync_records(a, b, list(roots) if roots else None)
        else:
            ids = list(roots) if roots else [r[0] for r in a.session.execute(
                __import__("sqlalchemy").text("select id from execution")).fetchall()]
            lines = [json.dumps(r) for r in a.get_records(a.iter_record_ids(ids))]
            n = b.put_records(json.loads(l) for l in lines)
        b.session.commit()
        return n
    finally:
        hist.close_backend(a)
        hist.close_backend(b)


def table_rows(path, with_times=True):
    con = dbaudit.connect(path)
    out = {}
    try:
        for t in COMPARED:
            cols = [r[1] for r in con.execute('PRAGMA table_info("%s")' % t)]
            cols = [c for c in cols if c != "updated_time"]
            if t == "call_subtree_task":
                # owner column first, whatever the declared order
                cols = sorted(cols, key=lambda c: c != "call_hash")
            out[t] = (cols, [tuple(r) for r in con.execute('select %s from "%s"' % (", ".join('"%s"' % c for c in cols), t))])
    finally:
        con.close()
    return out


def closure(path, roots):
    """Independent computation of what a transfer of `roots` must contain: table -> set of primary keys."""
    con = dbaudit.connect(path)
    q = lambda sql, *a: con.execute(sql, a).fetchall()  # noqa: E731
    try:
        execs = set(roots)
        jobs = set()
        for e in execs:
            jobs |= {r[0] for r in q("select id from job where execution_id=?", e)}
        calls = set()
        for j in jobs:
            calls |= {r[0] for r in q("select call_hash from job where id=? and call_hash is not null", j)}
        frontier = set(calls)
        while frontier:
            nxt = set()
            for c in frontier:
                nxt |= {r[0] for r in q("select child_id from call_edge where parent_id=?", c)}
                nxt |= {r[0] for r in q("select result_call_hash from argument_result ar join argument a on a.arg_hash=ar.arg_hash where a.call_hash=?", c)}
            frontier = nxt - calls
            calls |= nxt
        values, tasks = set(), set()
        for j in jobs:
            tasks |= {r[0] for r in q("select task_hash from job where id=?", j)}
        for c in calls:
            values |= {r[0] for r in q("select value_hash from call_node where call_hash=?", c)}
            values |= {r[0] for r in q("select value_hash from argument where call_hash=?", c)}
            tasks |= {r[0] for r in q("select task_hash from call_node where call_hash=?", c)}
        values |= tasks
        frontier = set(values)
        while frontier:
            nxt = set()
            for v in frontier:
                nxt |= {r[0] for r in q("select value_hash from subvalue where parent_value_hash=?", v)}
            frontier = nxt - values
            values |= nxt
        tags = set()
        for ent in execs | jobs | calls | values:
            tags |= {r[0] for r in q("select tag_hash from tag where entity_id=?", ent)}
        frontier = set(tags)
        while frontier:
            nxt = set()
            for t in frontier:
                nxt |= {r[0] for r in q("select parent_id from tag_edit where child_id=?", t)}
                nxt |= {r[0] for r in q("select child_id from tag_edit where parent_id=?", t)}
            frontier = nxt - tags
            tags |= nxt
        return {"execution": execs, "job": jobs, "call_node": calls, "value": values, "task": tasks & values, "tag": tags}
    finally:
        con.close()


SUBTREE_OWNER_COL = 0    # call_subtree_task(call_hash, task_hash); verified against the schema in table_rows()
PK = {"execution": 0, "job": 0, "call_node": 0, "value": 0, "task": 0, "tag": 0}


def compare(ctx, src, dst, roots, wit):
    a, b = table_rows(src), table_rows(dst)
    clo = closure(src, roots)
    ok = True
    for t in COMPARED:
        cols, ra = a[t]
        _, rb = b[t]
        sa, sb = set(map(repr, ra)), set(map(repr, rb))
        extra = sb - sa
        if extra:
            # rows at the destination that do not exist (identically) at the source
            mech = "transferred-row-differs:" + t
            ctx.violation(mech, "table %s: destination has %d row(s) that differ from / do not exist at the source, e.g. %s" % (
                t, len(extra), sorted(extra)[0][:300]), wit)
            ok = False
        if t in clo:
            have = {r[PK[t]] for r in rb}
            missing = clo[t] - have
            if missing:
                ctx.violation("record-not-transferred:" + t, "table %s: %d record(s) reachable from the roots are missing at the "
                              "destination, e.g. %s" % (t, len(missing), sorted(missing)[0]), wit)
                ok = False
            ctx.count("closure_records_checked", len(clo[t]))
        # dependent tables: all source rows whose owner is in the closure must be present
        owner = {"call_edge": ("call_node", 0), "call_subtree_task": ("call_node", SUBTREE_OWNER_COL), "argument": ("call_node", 1), "subvalue": ("value", 1), "file": ("value", 0),
                 "tag_edit": ("tag", 0)}.get(t)
        if owner:
            need = {repr(r) for r in ra if r[owner[1]] in clo[owner[0]]}
            lost = need - sb
            if lost:
                ctx.violation("dependent-row-not-transferred:" + t, "table %s: %d row(s) missing, e.g. %s" % (t, len(lost), sorted(lost)[0][:300]), wit)
                ok = False
        ctx.count("rows_compared", len(rb))
    return ok


def run_repo(ctx, rnd, where):
    d = tempfile.mkdtemp(prefix="verif_c23_")
    try:
        spec = gen_repo(rnd)
        src, dst = os.path.join(d, "src.db"), os.path.join(d, "dst.db")
        exec_ids = build_repo(spec, src, d)
        mode = rnd.choice(["sync", "export-import"])
        roots = None if rnd.random() < 0.5 else rnd.sample(exec_ids, rnd.randint(1, len(exec_ids)))
        wit = {"spec": spec, "mode": mode, "roots": "all" if roots is None else len(roots), "where": where}
        ctx.ev()
        ctx.count("mode_" + mode)
        before = dbaudit.dump(src)
        try:
            n1 = transfer(src, dst, mode, roots)
        except Exception as ex:
            ctx.violation("transfer-raised", "transfer raised %r" % (ex,), wit)
            return
        ctx.count("transfers")
        compare(ctx, src, dst, roots or exec_ids, wit)
        problems = dbaudit.referential_audit(dst)
        if problems:
            ctx.violation("destination-inconsistent", "destination not referentially consistent: %s" % problems[:3], wit)
        snap = dbaudit.dump(dst)
        n2 = transfer(src, dst, mode, roots)
        if n2 != 0 or dbaudit.dump(dst) != snap:
            ctx.violation("transfer-not-idempotent", "second transfer returned %r / changed the destination" % (n2,), wit)
        if roots is None:
            n3 = transfer(dst, src, mode, None)
            if n3 != 0 or dbaudit.dump(src) != before:
                ctx.violation("reverse-transfer-adds-records", "transfer back returned %r / changed the source" % (n3,), wit)
            ctx.count("reverse_transfers")
        # incremental transfer: the source grows (new executions sharing sub-calls, edits of tags the destination
        # already holds), then the same roots (or everything) are transferred again
        if roots is None or rnd.random() < 0.5:
            exec_ids2 = build_repo(spec, src, d, phase=2)
            roots2 = None if roots is None else list(roots) + [e for e in exec_ids2 if e not in exec_ids]
            try:
                transfer(src, dst, mode, roots2)
            except Exception as ex:
                ctx.violation("transfer-raised", "second (incremental) transfer raised %r" % (ex,), wit)
                return
            ctx.count("incremental_transfers")
            compare(ctx, src, dst, roots2 or exec_ids2, dict(wit, phase="incremental"))
            problems = dbaudit.referential_audit(dst)
            if problems:
                ctx.violation("destination-inconsistent", "after the incremental transfer: %s" % problems[:3], wit)
            snap2 = dbaudit.dump(dst)
            n4 = transfer(src, dst, mode, roots2)
            if n4 != 0 or dbaudit.dump(dst) != snap2:
                ctx.violation("transfer-not-idempotent", "repeated incremental transfer returned %r / changed the destination" % (n4,), wit)
            before = dbaudit.dump(src)
            exec_ids = exec_ids2
        superseded = sum(1 for r in before.get("tag", []) if r[-1] == "0")
        if len(exec_ids) >= 2 and (superseded or len(before.get("call_node", [])) < sum(len(e) for e in spec["execs"]) * 3):
            ctx.nontrivial([spec, mode, wit["roots"]])
        if superseded:
            ctx.count("repos_with_superseded_tags")
        # cache clause: same program, edited task, on copies of source and destination
        if roots is None:
            prog, x, y = spec["execs"][0]
            cands = [n for n in ("leafA", "leafB", "plus", "mid", "recover", "readf") if n in hist.BODY]
            name = rnd.choice(cands)
            nv = (spec["cfg"][name]["variant"] + 1) % hist.NVARIANTS[name]
            outs = {}
            for label, p in (("source", src), ("destination", dst)):
                cp = p + ".cache"
                shutil.copy(p, cp)
                hist.reset(spec["cfg"])
                hist.define(name, nv)
                b = c22.open_backend(cp)
                try:
                    key, out, calls, c = hist.run(lambda: expr(prog, x, y, d), b)
                finally:
                    hist.close_backend(b)
                outs[label] = (key, {n for n, _ in calls})
            hist.reset(spec["cfg"])
            hist.define(name, nv)
            exp, _ = hist.fresh_result(lambda: expr(prog, x, y, d))
            ctx.count("cache_clause_checks")
            k_dst, inv_dst = outs["destination"]
            k_src, inv_src = outs["source"]
            if not c22.same(k_dst, exp) and c22.same(k_src, exp):
                ctx.violation("destination-cache-serves-stale-result", "after editing %s the destination returned %r, the source and "
                              "an empty backend return %r" % (name, k_dst, exp), dict(wit, edit=[name, nv]))
            elif not (inv_src <= inv_dst) and c22.same(k_src, exp):
                ctx.count("destination_replayed_more_than_source")
                if not c22.same(k_dst, exp):
                    ctx.violation("destination-cache-serves-stale-result", "destination skipped %r" % (sorted(inv_src - inv_dst),), wit)
        return spec
    finally:
        shutil.rmtree(d, ignore_errors=True)


def shard(ctx, n, sub):
    rnd = random.Random("%s-%s-c23" % (ctx.seed, sub))
    for i in range(n):
        spec = run_repo(ctx, rnd, {"seed": ctx.seed, "sub": sub, "i": i})
        if i < 1 and spec:
            ctx.sample({"executions": spec["execs"], "tag_ops": spec["tagops"]})


def main(ctx):
    n = ctx.pick(3, 40)
    ctx.shards("shard", [{"n": n, "sub": s} for s in range(16)], timeout=ctx.pick(900, 3400))
    ctx.require("transfers", 30)
    ctx.require("rows_compared", 2000)
    ctx.require("cache_clause_checks", 8)
    ctx.require("repos_with_superseded_tags", 3)
    ctx.require("incremental_transfers", 15)


def replay(ctx, witness):
    w = witness["where"]
    from vlib.core import Ctx
    rnd = random.Random("%s-%s-c23" % (w["seed"], w["sub"]))
    for i in range(w["i"] + 1):
        run_repo(ctx if i == w["i"] else Ctx("C23", "quick", w["seed"]), rnd, w)
