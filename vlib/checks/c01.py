"""C01 — scheduler evaluation agrees with the graph-reduction semantics.

Differential monitor: generated workflow programs are evaluated (a) by the real Scheduler under the
schedule controller with several schedules and (b) on the unmodified LocalExecutor pools (thread,
process via forkserver and fork, async twins); the observed value / exception must be a member of the
set-valued reference interpreter's outcomes (vlib.wf.Ref).
"""
import json
import random
import threading

from vlib import engine, wf
from vlib.core import short_hash

PROPERTY = "C01"
LEVEL = "exploration"
RULE = ("seeded grammar walk over the AST forms in vlib/wf.py (task calls incl. kwargs/keyword-only/variadic, "
        "nested containers incl. dict keys/sets/NamedTuple/dataclass, lazy operators incl. reverse ops and "
        "call, partials, expression-valued defaults, cond/seq/catch/catch_all/map_/flat_map/apply_func/"
        "as_task/fork_thread+join_thread/apply_tags/no_prov, error leaves).  Non-trivial = distinct canonical "
        "AST with >=2 task calls and >=1 control form or nested container.")
ASSUMPTIONS = ["tasks are deterministic pure functions of their arguments",
               "where concurrent siblings both fail, either error is an acceptable outcome (Promise.all "
               "rejects with the first rejection to arrive)"]

CONTROL = {"cond", "seq", "catch", "catch_all", "map", "flat_map", "apply_func", "as_task", "partial", "calle",
           "apply_tags", "noprov", "op", "getitem", "getattr"}


def nontrivial(feat):
    kinds = feat["kinds"]
    return feat["calls"] >= 2 and (any(k in CONTROL for k in kinds) or any(k.startswith("cont:") for k in kinds)
                                   or any(k.startswith("call:") for k in kinds))


def classify(ast, key):
    """Mechanism of a mismatch, from the witness."""
    if key[0] == "e" and key[1] == "IntegrityError" and "tag.tag_hash" in key[2]:
        return "duplicate-tag-in-one-record_tags-batch"
    return "unclassified"


def to_async(ast):
    ren = {"add": "a_add", "inc2": "a_inc2", "fail": "a_fail"}

    def fn(c):
        if c[1] in ren and not c[3]:
            c = ["call", ren[c[1]], c[2], c[3], c[4]]
        return c
    return wf.map_calls(ast, fn)


def with_modes(ast, rnd, p):
    leafs = {"add", "mul", "neg", "inc", "ident", "isodd", "mklist", "mkdict", "mknt", "mkdc", "mktuple", "sumlist",
             "dup", "fail", "fail_if", "kwonly", "varargs", "inc2", "fan", "rec", "nest_dict", "twice_same", "ret_task"}

    def fn(c):
        if c[1] in leafs and rnd.random() < p:
            c[4] = dict(c[4], mode="process")
        return c
    return wf.map_calls(ast, fn)


def check_outcome(ctx, ast, exp, out, how):
    key = engine.outcome_key(out)
    ctx.count("runs_" + how.split(":")[0])
    if key[0] in ("deadlock", "steplimit"):
        if key[0] == "deadlock":
            ctx.violation("deadlock", "execution reached a dead quiescent state: %s" % (key[1],),
                          {"ast": ast, "how": how})
        else:
            ctx.mark_inconclusive("step limit hit")
        return False
    if key not in exp:
        ctx.violation(classify(ast, key), "observed %r, reference allows %r (%s)" % (key, sorted(exp), how),
                      {"ast": ast, "how": how, "observed": list(key), "expected": sorted(map(list, exp))})
        return False
    if key[0] == "e":
        ctx.count("outcomes_error")
    else:
        ctx.count("outcomes_value")
    return True


def run_with_watchdog(fn, seconds):
    """Runs in the calling thread (in-memory SQLite connections are per thread); the wall-clock watchdog
    is the shard's subprocess timeout, whose firing makes the run inconclusive."""
    try:
        return ("v", fn())
    except Exception as e:
        return ("e", e)


def shard(ctx, n, sub, depth, n_sched, real_every, proc_every):
    rnd = random.Random("%s-%s-c01" % (ctx.seed, sub))
    backend = engine.new_backend()
    real_backend = engine.new_backend()
    for i in range(n):
        g = wf.Gen(rnd, max_depth=depth, fan=3, err_budget=rnd.choice([0, 1, 2, 3]))
        ast = g.program()
        where = {"seed": ctx.seed, "sub": sub, "i": i}
        try:
            exp, _ = wf.expected_outcomes(ast)
        except wf.RefTooBig:
            ctx.count("ref_too_big")
            continue
        ctx.ev()
        feat = wf.features(ast)
        if nontrivial(feat):
            ctx.nontrivial(ast)
        for kd in feat["kinds"]:
            ctx.count("form_" + kd)
        ctx.extra.setdefault("feature_pairs", {})
        for pr in feat["pairs"]:
            ctx.extra["feature_pairs"][pr] = ctx.extra["feature_pairs"].get(pr, 0) + 1
        if len(exp) > 1:
            ctx.count("programs_with_schedule_dependent_error")
        # (a) controlled schedules
        sigs = set()
        for name, ch in engine.choosers(rnd, n_sched):
            cache = rnd.random() < 0.5
            out, c, s = engine.run_controlled(wf.build(ast), ch, backend=backend, cache=cache)
            sigs.add(c.signature())
            ok = check_outcome(ctx, ast, exp, out, "controlled:%s:cache=%s" % (name, cache))
            if out[0] == "e" and engine.is_db_failure(out[1]):
                backend = engine.new_backend()
            if not ok:
                break
        ctx.count("distinct_schedule_signatures", len(sigs))
        # (b) real pools
        if real_every and i % real_every == 0:
            variants = [("thread", ast)]
            if proc_every and (i // real_every) % proc_every == 0:
                sm = rnd.choice(["forkserver", "fork"])
                variants.append(("process-" + sm, with_modes(ast, rnd, 0.5)))
            if "fork" not in feat["kinds"] and any(t in wf.task_names(ast) for t in ("add", "inc2", "fail")):
                variants.append(("async", to_async(ast)))
            for how, a2 in variants:
                try:
                    exp2, _ = wf.expected_outcomes(a2)
                except wf.RefTooBig:
                    continue
                s = engine.real_scheduler(backend=real_backend, start_method=how.split("-")[1] if "-" in how else "forkserver")
                out = run_with_watchdog(lambda: s.run(wf.build(a2), cache=rnd.random() < 0.5), 120)
                if out is None:
                    ctx.mark_inconclusive("real-pool run exceeded 120 s watchdog (%s)" % how)
                    continue
                ok = check_outcome(ctx, a2, exp2, out, "real:" + how)
                if out[0] == "e" and engine.is_db_failure(out[1]):
                    real_backend = engine.new_backend()
        if i < 2:
            ctx.sample({"ast": json.loads(json.dumps(ast, default=repr)), "expected": sorted(map(list, exp))})


def main(ctx):
    if ctx.is_quick():
        ctx.shards("shard", [{"n": 14, "sub": s, "depth": 4, "n_sched": 4, "real_every": 2, "proc_every": 3}
                             for s in range(16)], timeout=600)
    else:
        ctx.shards("shard", [{"n": 220, "sub": s, "depth": 6, "n_sched": 8, "real_every": 3, "proc_every": 3}
                             for s in range(16)], timeout=3000)
    fp = ctx.extra.get("feature_pairs", {})
    ctx.extra["feature_pairs_distinct"] = len(fp)
    ctx.extra["feature_pairs"] = dict(sorted(fp.items(), key=lambda kv: -kv[1])[:40])
    ctx.require("runs_controlled", 300)
    ctx.require("runs_real", 50)
    ctx.require("outcomes_error", 10)


def replay(ctx, witness):
    ast = witness["ast"]
    exp, _ = wf.expected_outcomes(ast)
    how = witness["how"]
    print("expected:", sorted(exp))
    if how.startswith("controlled:"):
        _, name, cache = how.split(":", 2) if how.count(":") == 2 else (None, how.split(":")[1] + ":" + how.split(":")[2], how.split(":")[3])
        cache = cache.endswith("True")
        out, c, s = engine.run_controlled(wf.build(ast), engine.chooser_from_name(name), cache=cache)
    else:
        s = engine.real_scheduler()
        out = run_with_watchdog(lambda: s.run(wf.build(ast)), 120)
    print("observed:", engine.outcome_key(out))
    check_outcome(ctx, ast, exp, out, how)
