"""C02 — cached executions return what an uncached run would return.

History + differential oracle: sequences of executions share one backend (fresh Scheduler per
execution, as the CLI does) with steps between them (task body edit, version bump, revert to an earlier
body, argument change and change back, input-file rewrite); every execution's outcome is compared with
the same program on an empty backend.  Task-function invocations are logged so that the evidence shows
caching was actually exercised.
"""
import os
import random
import shutil
import tempfile

from redun import File

from vlib import ctl, engine, hist

PROPERTY = "C02"
LEVEL = "exploration"
RULE = ("program families over the editable task family vh (top/deep/mix/guarded(catch)/failing/readf(File input)/nestfile(File built inside a body, nested in call arguments)/"
        "pipeline(File output)/shapes(lazy parts inside dataclass, namedtuple, dict, tuple results)), each task unversioned or versioned at random; histories of N executions with one step "
        "between executions from {edit body, revert to earlier body, change argument, change it back, rewrite input "
        "file with different size or mtime, touch nothing}.  Non-trivial = distinct history in which some execution "
        "both replayed cached work and re-executed something (0 < invocations < invocations of the uncached run).")
ASSUMPTIONS = ["default cache options only (cache_scope=BACKEND, check_valid=full), as the property states",
               "tasks are deterministic functions of arguments and input file contents"]

FAMILIES = ["top", "deep", "mix", "guarded", "failing", "readf", "pipeline", "nestfile", "shapes"]
EDITABLE = {"shapes": ["leafA", "leafB", "plus", "mid", "shapes"], "top": ["leafA", "leafB", "plus", "mid", "top"], "deep": ["leafA", "leafB", "plus", "mid", "top", "deep"],
            "mix": ["leafA", "leafB", "plus", "mid", "top", "maybe_fail", "recover", "guarded"],
            "guarded": ["maybe_fail", "recover", "guarded", "leafA"], "failing": ["leafA", "leafB", "maybe_fail", "failing_parent"],
            "readf": ["readf"], "pipeline": ["readf", "writef", "pipeline"], "nestfile": ["readf", "cat2", "leafA"]}


class World:
    """Arguments and files of one history."""

    def __init__(self, rnd, family, d):
        self.family = family
        self.d = d
        self.x = rnd.randint(0, 5)
        self.y = rnd.randint(0, 5)
        self.inp = os.path.join(d, "input.txt")
        self.content = "c%d" % rnd.randint(0, 3)
        self.file_text = "hello"
        self.mtime = 1_600_000_000
        self.write_input()

    def write_input(self):
        with open(self.inp, "w") as f:
            f.write(self.file_text)
        self.mtime += 100
        os.utime(self.inp, (self.mtime, self.mtime))

    def expr(self, fresh=False):
        T = hist.T
        f = self.family
        if f == "top":
            return T["top"](self.x, self.y)
        if f == "deep":
            return T["deep"](self.x)
        if f == "shapes":
            return [T["shapes"](self.x), T["leafB"](self.y)]
        if f == "mix":
            return [T["top"](self.x, self.y), T["mid"](self.x), T["guarded"](self.y)]
        if f == "guarded":
            return T["guarded"](self.x)
        if f == "failing":
            return T["failing_parent"](self.x)
        if f == "readf":
            return [T["readf"](File(self.inp)), T["leafA"](self.x)]
        if f == "nestfile":
            return [T["nestfile"](self.inp, self.x), T["leafB"](self.y)]
        if f == "pipeline":
            out = os.path.join(self.d, "out-fresh.txt" if fresh else "out.txt")
            return T["pipeline"](out, self.content)
        raise ValueError(f)


def gen_step(rnd, world, past_variants):
    r = rnd.random()
    names = EDITABLE[world.family]
    if r < 0.4:
        name = rnd.choice(names)
        cur = hist.STATE[name]["variant"]
        v = rnd.choice([i for i in range(hist.NVARIANTS[name]) if i != cur])
        return ["edit", name, v]
    if r < 0.55:
        cands = [(n, v) for n, vs in past_variants.items() for v in vs if v != hist.STATE[n]["variant"]]
        if cands:
            n, v = rnd.choice(cands)
            return ["revert", n, v]
        return ["nothing"]
    if r < 0.75:
        return ["arg", rnd.choice(["x", "y", "content"]), rnd.randint(0, 5)]
    if r < 0.9 and world.family in ("readf", "nestfile"):
        return ["file", rnd.choice(["rewrite-size", "rewrite-mtime", "same-bytes-new-mtime"])]
    return ["nothing"]


def apply_step(step, world, past_variants):
    k = step[0]
    if k in ("edit", "revert"):
        past_variants.setdefault(step[1], set()).add(hist.STATE[step[1]]["variant"])
        hist.define(step[1], step[2])
    elif k == "arg":
        if step[1] == "content":
            world.content = "c%d" % step[2]
        else:
            setattr(world, step[1], step[2])
    elif k == "file":
        if step[1] == "rewrite-size":
            world.file_text = world.file_text + "x"
        elif step[1] == "rewrite-mtime":
            world.file_text = "".join(reversed(world.file_text))
        world.write_input()


def run_history(ctx, rnd, family, nsteps, where):
    d = tempfile.mkdtemp(prefix="verif_c02_")
    try:
        cfg = {n: {"variant": rnd.randrange(hist.NVARIANTS[n]), "versioned": rnd.random() < 0.35} for n in hist.BODY}
        hist.reset(cfg)
        world = World(rnd, family, d)
        backend = engine.new_backend()
        past = {}
        log = []
        nontrivial = False
        recovered_before = False
        recov_mf_variants = set()
        for i in range(nsteps):
            step = ["start"] if i == 0 else gen_step(rnd, world, past)
            if i:
                apply_step(step, world, past)
            chooser = ctl.RandomChooser(rnd.randrange(1 << 30)) if rnd.random() < 0.5 else None
            key, out, calls, c = hist.run(lambda: world.expr(False), backend, chooser=chooser)
            exp, fresh_calls = hist.fresh_result(lambda: world.expr(True))
            ctx.count("executions")
            ctx.count("step_" + step[0])
            ctx.count("task_invocations_cached_runs", len(calls))
            ctx.count("task_invocations_uncached_runs", len(fresh_calls))
            log.append({"step": step, "result": list(key)[:2], "invocations": len(calls), "uncached_invocations": len(fresh_calls)})
            if 0 < len(calls) < len(fresh_calls):
                nontrivial = True
                ctx.count("executions_partially_replayed")
            if len(calls) == 0 and fresh_calls:
                ctx.count("executions_fully_replayed")
            same = (key == exp) if key[0] == "v" else (exp[0] == "e" and key[1] == exp[1])
            if not same:
                mech = "stale-result-after-" + step[0]
                cur_mf = hist.STATE["maybe_fail"]["variant"]
                replayed = any(l["result"] == list(key)[:2] for l in log[:-1])
                if (family in ("guarded", "mix") and recovered_before and step[0] in ("edit", "revert")
                        and (step[1] == "maybe_fail" or (cur_mf not in recov_mf_variants and replayed))):
                    # (also when the stale recovery resurfaces later, e.g. when recover is reverted to the body under which
                    # the recovery was recorded while maybe_fail has been edited in between)
                    # catch() cached "expr failed -> recover(error)" under a key that does not depend on the
                    # code of the tasks beneath expr; editing the failing task does not invalidate it
                    mech = "catch-caches-recovery-irrespective-of-guarded-subtree-code"
                ctx.violation(mech, "execution %d after %r returned %r; an empty backend returns %r" % (i, step, key, exp),
                              {"family": family, "log": log, "where": where})
                break
            if out[0] == "e" and engine.is_db_failure(out[1]):
                break
            if any(n == "recover" for n, _ in calls):
                recovered_before = True
                recov_mf_variants.add(hist.STATE["maybe_fail"]["variant"])
        ctx.ev()
        if nontrivial:
            ctx.nontrivial([family, [l["step"] for l in log], cfg])
        return log
    finally:
        shutil.rmtree(d, ignore_errors=True)


def shard(ctx, n, sub, nsteps):
    rnd = random.Random("%s-%s-c02" % (ctx.seed, sub))
    for i in range(n):
        family = FAMILIES[(i + sub) % len(FAMILIES)]
        log = run_history(ctx, rnd, family, nsteps, {"seed": ctx.seed, "sub": sub, "i": i, "nsteps": nsteps})
        ctx.count("family_" + family)
        if i < 1:
            ctx.sample({"family": family, "history": log})


def main(ctx):
    if ctx.is_quick():
        ctx.shards("shard", [{"n": 7, "sub": s, "nsteps": 7} for s in range(16)], timeout=600)
    else:
        ctx.shards("shard", [{"n": 70, "sub": s, "nsteps": 11} for s in range(16)], timeout=3400)
    ctx.require("executions", 300)
    ctx.require("executions_partially_replayed", 30)
    ctx.require("executions_fully_replayed", 10)


def replay(ctx, witness):
    w = witness["where"]
    rnd = random.Random("%s-%s-c02" % (w["seed"], w["sub"]))
    from vlib.core import Ctx
    for i in range(w["i"] + 1):
        family = FAMILIES[(i + w["sub"]) % len(FAMILIES)]
        log = run_history(ctx if i == w["i"] else Ctx("C02", "quick", w["seed"]), rnd, family, w["nsteps"], w)
    for l in log:
        print(l)
