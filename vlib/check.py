import argparse
import os
import sys

from vlib import core


def seed_value(text):
    """VERIF_SEED may be any string; non-integers are folded to a stable integer."""
    try:
        return int(text)
    except ValueError:
        import hashlib
        return int(hashlib.sha256(str(text).encode()).hexdigest()[:8], 16)


def main():
    ap = argparse.ArgumentParser()
    ap.add_argument("prop")
    ap.add_argument("--tier", default=os.environ.get("VERIF_TIER", "quick"),
                    choices=["quick", "thorough"])
    ap.add_argument("--seed", type=seed_value, default=seed_value(os.environ.get("VERIF_SEED", "0") or "0"))
    ap.add_argument("--replay", default=None)
    a = ap.parse_args()
    sys.exit(core.run_check(a.prop.upper(), a.tier, a.seed, a.replay))


if __name__ == "__main__":
    main()
