#!/bin/bash
# tools/mut.sh <patch-file> <check id>...   : run checks against a scratch worktree of /repo with the patch applied.
# The worktree lives under /tmp and is removed afterwards.  Evidence files are restored afterwards.
set -u
PATCH=$(readlink -f "$1"); shift
WT=$(mktemp -d /tmp/mutwt.XXXXXX)
rmdir "$WT"
git -C /repo worktree add -q --detach "$WT" HEAD || exit 3
if ! git -C "$WT" apply "$PATCH"; then echo "PATCH DOES NOT APPLY"; git -C /repo worktree remove --force "$WT"; exit 3; fi
cd "$(dirname "$0")/.."
SAVE=$(mktemp -d /tmp/evsave.XXXXXX)
cp -r evidence "$SAVE/" 2>/dev/null
for c in "$@"; do
  echo "=== $c against $(basename $PATCH)"
  VERIF_REPO="$WT" ./check "$c" ${TIER:+--tier $TIER} 2>&1 | grep -E "^(VIOLATION|KNOWN|INCONCLUSIVE|C[0-9]+ tier)|mechanism=" | cut -c1-300
done
rm -rf evidence; cp -r "$SAVE/evidence" evidence; rm -rf "$SAVE"
git -C /repo worktree remove --force "$WT"
