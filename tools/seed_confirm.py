#!/venv/bin/python
"""tools/seed_confirm.py <ID> [--name NAME] [--no-suite] <check>...
Confirm a seeded change produced by a sub-agent in /tmp/seed/<ID>.out: in a scratch worktree of /repo HEAD
 1. the demonstration passes without the change, 2. fails with it, 3. the pinned test suite still passes with it,
 4. run the given /verif checks against it.  Then file it under /verif/seeded/<NAME>/."""
import json
import os
import shutil
import subprocess
import sys
import tempfile

args = sys.argv[1:]
sid = args.pop(0)
name = sid
suite = True
srcroot = "/tmp/seed"
while args and args[0].startswith("--"):
    a = args.pop(0)
    if a == "--name":
        name = args.pop(0)
    elif a == "--no-suite":
        suite = False
    elif a == "--src":
        srcroot = args.pop(0)
checks = args
src = "%s/%s.out" % (srcroot, sid)
patch = os.path.join(src, "patch.diff")
demo = os.path.join(src, "demo.py")
wt = tempfile.mkdtemp(prefix="seedwt.", dir="/tmp")
os.rmdir(wt)
subprocess.check_call(["git", "-C", "/repo", "worktree", "add", "-q", "--detach", wt, "HEAD"])
res = {"confirmed_at_repo_commit": subprocess.check_output(["git", "-C", "/repo", "rev-parse", "--short", "HEAD"], text=True).strip()}
env = dict(os.environ, PYTHONPATH=wt)


def run_demo():
    try:
        r = subprocess.run(["/venv/bin/python", demo], cwd=wt, env=env, stdout=subprocess.PIPE, stderr=subprocess.STDOUT,
                           text=True, timeout=900)
        return r.returncode, r.stdout[-1500:]
    except subprocess.TimeoutExpired:
        return "timeout", ""


try:
    rc0, out0 = run_demo()
    res["demo_without_change"] = rc0
    ap = subprocess.run(["git", "-C", wt, "apply", "--3way", patch], stdout=subprocess.PIPE, stderr=subprocess.STDOUT, text=True)
    res["patch_applies"] = ap.returncode == 0
    if ap.returncode != 0:
        print("PATCH DOES NOT APPLY:", ap.stdout)
    else:
        rc1, out1 = run_demo()
        res["demo_with_change"] = rc1
        res["demo_output_with_change"] = out1[-600:]
        if suite:
            r = subprocess.run(["/verif/tools/baseline.py", wt], stdout=subprocess.PIPE, stderr=subprocess.STDOUT, text=True)
            res["suite_passes_with_change"] = r.returncode == 0
            res["suite_summary"] = r.stdout[-400:]
        res["checks"] = {}
        save = tempfile.mkdtemp(prefix="evsave.", dir="/tmp")
        for c in checks:
            r = subprocess.run(["/verif/check", c], env=dict(os.environ, VERIF_REPO=wt, VERIF_OUT_DIR=save), stdout=subprocess.PIPE,
                               stderr=subprocess.STDOUT, text=True)
            lines = [l for l in r.stdout.splitlines() if l.startswith(("VIOLATION", "KNOWN", "INCONCLUSIVE", "  mechanism")) or " tier=" in l]
            res["checks"][c] = {"exit": r.returncode, "lines": [l[:300] for l in lines][:8]}
        shutil.rmtree(save)
finally:
    subprocess.call(["git", "-C", "/repo", "worktree", "remove", "--force", wt])
ok = res.get("demo_without_change") == 0 and res.get("demo_with_change") not in (0, None) and (not suite or res.get("suite_passes_with_change"))
res["kept"] = bool(ok)
print(json.dumps(res, indent=1))
if ok:
    dst = "/verif/seeded/%s" % name
    os.makedirs(dst, exist_ok=True)
    shutil.copy(patch, os.path.join(dst, "patch.diff"))
    shutil.copy(demo, os.path.join(dst, "demo.py"))
    meta = {}
    try:
        meta = json.load(open(os.path.join(src, "meta.json")))
    except Exception:
        pass
    out = {"property": meta.get("property", sid), "summary": meta.get("summary"), "needs": meta.get("needs"),
           "files": meta.get("files"), "author": "independent sub-agent given only the property text",
           "confirmation": res,
           "detected_by": [c for c, v in res.get("checks", {}).items() if v["exit"] == 1]}
    json.dump(out, open(os.path.join(dst, "meta.json"), "w"), indent=1)
    print("filed under", dst, "detected_by", out["detected_by"])
