"""C17 — task hashes track code identity.

Monitor: Task.hash of generated definitions (real source text through linecache, the real @task /
wraps_task / .options / .update_context / .partial code paths) is compared with the hash of every
single mutation of the definition; the oracle is the must-change / must-not-change relation stated by
the property, also observed *through* call-time overrides.
"""
import linecache
import random

from redun.task import task, wraps_task

PROPERTY = "C17"
LEVEL = "exploration"
RULE = ("generated task definitions (name, namespace, body, sync/async def, unversioned or versioned, "
        "hash_includes, definition options, decorator layout) x mutation kinds {name, namespace, body, version, "
        "includes-content, includes-order, definition-option, decorator-layout, call-time option, update_context, "
        "wrapped inner body, partial arguments}, each also observed through .options()/.update_context().  "
        "Non-trivial = distinct (definition, mutation, view) triple.")
ASSUMPTIONS = ["hash_includes items are hashable by TypeRegistry.get_hash"]

_n = [0]
MOD = __name__


def define(src, fname):
    _n[0] += 1
    filename = "<c17-src-%d>" % _n[0]
    linecache.cache[filename] = (len(src), None, src.splitlines(True), filename)
    ns = {"task": task, "wraps_task": wraps_task, "__name__": MOD}
    exec(compile(src, filename, "exec"), ns)
    return ns[fname]


def render(d):
    """Source text of a task definition."""
    args = ["name=%r" % d["name"], "namespace=%r" % d["ns"]]
    if d["version"] is not None:
        args.append("version=%r" % d["version"])
    if d["includes"] is not None:
        args.append("hash_includes=%r" % (d["includes"],))
    for k, v in sorted(d["defopts"].items()):
        args.append("%s=%r" % (k, v))
    if d["async"]:
        args.append("cache=False")
    layout = d["layout"]
    if layout == 0:
        deco = "@task(%s)\n" % ", ".join(args)
    elif layout == 1:
        deco = "@task(\n%s\n)\n" % "".join("    %s,\n" % a for a in args)
    else:
        deco = "@task(  %s  )  # a comment\n" % ",  ".join(args)
    kw = "async def" if d["async"] else "def"
    body = "%s f(x, y=1):\n    return %s\n" % (kw, d["body"])
    return deco + body


def make(d):
    return define(render(d), "f")


def gen_def(rnd, i):
    return {
        "name": rnd.choice(["alpha", "beta", "t_1"]),
        "ns": "c17_%s_%d" % (rnd.choice(["a", "b.c"]), i),
        "version": rnd.choice([None, None, "1", "2.0"]),
        "includes": rnd.choice([None, None, [1, "a"], ["x"], [[1, 2], {"k": 3}, 7]]),
        "defopts": rnd.choice([{}, {"executor": "batch"}, {"memory": 4, "vcpus": 2}, {"check_valid": "shallow"}]),
        "layout": rnd.choice([0, 1, 2]),
        "body": rnd.choice(["x + 1", "x + y", "x * 2  # c", "(x,\n            y)"]),
        "async": rnd.random() < 0.25,
    }


def mutations(rnd, d):
    """(kind, must_change, mutated definition)"""
    out = []
    out.append(("name", True, dict(d, name=d["name"] + "x")))
    out.append(("namespace", True, dict(d, ns=d["ns"] + "z")))
    nb = dict(d, body=d["body"] + " + 0")
    out.append(("body", d["version"] is None, nb))
    if d["version"] is not None:
        out.append(("version", True, dict(d, version=d["version"] + "b")))
    inc = d["includes"]
    if inc:
        out.append(("includes-content", True, dict(d, includes=inc[:-1] + ["changed!"])))
        out.append(("includes-added", True, dict(d, includes=inc + [99])))
        if len(inc) > 1:
            out.append(("includes-order", False, dict(d, includes=inc[::-1])))
    else:
        out.append(("includes-added", True, dict(d, includes=["new"])))
    out.append(("definition-option", False, dict(d, defopts=dict(d["defopts"], memory=64, queue="q"))))
    out.append(("decorator-layout", False, dict(d, layout=(d["layout"] + 1) % 3)))
    return out


VIEWS = ["plain", "options", "update_context", "export_options", "partial"]


def view(t, v):
    if v == "plain":
        return t
    if v == "options":
        return t.options(memory=3)
    if v == "update_context":
        return t.update_context({"k": 1})
    if v == "export_options":
        return t.export_options(executor="e")
    if v == "partial":
        return t.partial(5)
    raise ValueError(v)


def classify(kind, v, d):
    if kind in ("includes-content", "includes-added") and v in ("options", "update_context", "export_options", "partial"):
        return "hash-includes-dropped-by-call-time-override"
    if kind in ("definition-option", "decorator-layout", "includes-order") and d["async"] and d["version"] is None:
        return "async-def-source-keeps-decorator-lines"
    if kind == "wrapped-inner-body" and v != "plain":
        return "hash-includes-dropped-by-call-time-override"
    return "unclassified"


def run_case(ctx, rnd, d, where):
    try:
        base = make(d)
    except Exception as e:
        ctx.count("definition_rejected")
        return
    ctx.ev()
    for kind, must_change, d2 in mutations(rnd, d):
        try:
            mut = make(d2)
        except Exception:
            continue
        for v in VIEWS:
            try:
                h1, h2 = view(base, v).hash, view(mut, v).hash
            except Exception as e:
                ctx.violation("unclassified", "view %s raised %r" % (v, e), {"def": d, "kind": kind, "view": v})
                continue
            ctx.count("pairs_compared")
            ctx.count("kind_" + kind)
            ctx.nontrivial([d, kind, v])
            if must_change and h1 == h2:
                ctx.violation(classify(kind, v, d), "hash unchanged by mutation %s (view %s)" % (kind, v),
                              {"def": d, "kind": kind, "view": v, "where": where})
            if not must_change and h1 != h2:
                ctx.violation(classify(kind, v, d), "hash changed by mutation %s (view %s)" % (kind, v),
                              {"def": d, "kind": kind, "view": v, "where": where})
    # call-time overrides and bound arguments must be reflected
    checks = [("call-time-option", base.hash, base.options(memory=3).hash, True),
              ("call-time-option-value", base.options(memory=3).hash, base.options(memory=4).hash, True),
              ("call-time-option-same", base.options(memory=3).hash, base.options(memory=3).hash, False),
              ("update-context", base.hash, base.update_context({"k": 1}).hash, True),
              ("update-context-value", base.update_context({"k": 1}).hash, base.update_context({"k": 2}).hash, True),
              ("partial-args", base.partial(1).hash, base.partial(2).hash, True),
              ("partial-kwargs", base.partial(1, y=1).hash, base.partial(1, y=2).hash, True),
              ("partial-vs-task", base.hash, base.partial(1).hash, True),
              ("partial-same", base.partial(1).hash, base.partial(1).hash, False)]
    for kind, h1, h2, must in checks:
        ctx.count("pairs_compared")
        ctx.count("kind_" + kind)
        if must != (h1 != h2):
            ctx.violation("unclassified", "%s: hashes %s" % (kind, "equal" if h1 == h2 else "differ"),
                          {"def": d, "kind": kind, "where": where})
    # wrapped tasks
    if not d["async"]:
        for body2, must in [(d["body"] + " - 0", d["version"] is None), (d["body"], False)]:
            hs = []
            wns = d["ns"] + "_w%d" % _n[0]
            for b in (d["body"], body2):
                dd = dict(d, body=b, ns=wns)
                src = ("def deco():\n    @wraps_task()\n    def _deco(inner):\n        def run(*a, **k):\n"
                       "            return inner.func(*a, **k)\n        return run\n    return _deco\n\n"
                       "@deco()\n" + render(dd))
                try:
                    w = define(src, "f")
                except Exception as e:
                    ctx.count("wrap_definition_rejected")
                    hs = None
                    break
                hs.append(w)
            if not hs:
                continue
            for v in ("plain", "options", "update_context"):
                h1, h2 = view(hs[0], v).hash, view(hs[1], v).hash
                ctx.count("pairs_compared")
                ctx.count("kind_wrapped-inner-body")
                if must != (h1 != h2):
                    ctx.violation(classify("wrapped-inner-body", v, d) if must else "unclassified",
                                  "wrapper hash %s when inner body %s (view %s)" % (
                                      "unchanged" if h1 == h2 else "changed", "changed" if must else "same", v),
                                  {"def": d, "kind": "wrapped-inner-body", "view": v, "where": where})


def shard(ctx, n, sub):
    rnd = random.Random("%s-%s-c17" % (ctx.seed, sub))
    for i in range(n):
        d = gen_def(rnd, sub * 100000 + i)
        run_case(ctx, rnd, d, {"seed": ctx.seed, "sub": sub, "i": i})
        if i < 2:
            ctx.sample({"definition_source": render(d)})


def main(ctx):
    n = ctx.pick(25, 4000)
    ctx.shards("shard", [{"n": n, "sub": s} for s in range(16)])
    ctx.require("pairs_compared", 5000)
    ctx.require("kind_wrapped-inner-body", 100)
    ctx.require("kind_includes-order", 50)


def replay(ctx, witness):
    rnd = random.Random(0)
    print(render(witness["def"]))
    run_case(ctx, rnd, witness["def"], witness.get("where"))
