"""C22 — interrupted or retried recording never corrupts later runs.

Fault enumeration: for each workload the fault-free run counts the database commits and SQL
statements; then every commit index x {before, after} is turned into a process death (a BaseException
out of the SQLAlchemy session event; the session is discarded, leaving exactly the committed prefix in
the SQLite file) and every statement index into a single transient OperationalError.  Oracles:
referential audit of the file, recovery runs (same and edited program) against the empty-backend
result, and -- for retried operations -- equality of the normalised database with the fault-free one.
"""
import os
import random
import shutil
import tempfile
import uuid

from redun import File

from vlib import ctl, dbaudit, engine, faults, hist, wf, wf_tasks

PROPERTY = "C22"
LEVEL = "fault_enumeration"
RULE = ("workloads over the editable family vh (deep: nested calls, duplicates, subvalues; mixed: catch + failure + "
        "tasks in containers; pipeline: File outputs/inputs; tagged: apply_tags, nested dict values, Task values) x "
        "every commit index x {before, after} x recovery {same program, edited program, edited program directly} and "
        "every SQL statement index (single transient OperationalError).  A case = (workload, fault point); non-trivial "
        "= distinct fault point at which the fault actually fired.")
ASSUMPTIONS = ["SQLite backend; process death modelled as loss of everything not yet committed (cross-checked against a "
               "real os._exit subprocess for a sample of points)",
               "db_retries_backoff=0 so that retries are immediate"]


def seeded_uuid(seed):
    rnd = random.Random(seed)

    def uuid4():
        return uuid.UUID(int=rnd.getrandbits(128), version=4)
    return uuid4


class Workload:
    def __init__(self, name, d):
        self.name = name
        self.d = d
        self.x, self.y = 2, 4
        inp = os.path.join(d, "in.txt")
        if not os.path.exists(inp):
            with open(inp, "w") as f:
                f.write("data")
            os.utime(inp, (1_600_000_000, 1_600_000_000))
        self.inp = inp
        self.store = os.path.join(d, "vstore") if name == "bigvalue" else None

    def edits(self):
        return {"bigvalue": [("leafA", 1), ("mid", 1)], "deep": [("leafA", 1), ("mid", 1), ("top", 1)], "mixed": [("leafA", 1), ("recover", 1), ("leafB", 2)],
                "pipeline": [("readf", 1), ("writef", 2)], "tagged": [("leafA", 2)]}[self.name]

    def expr(self, tag="main"):
        T = hist.T
        if self.name == "deep":
            return T["deep"](self.x)
        if self.name == "bigvalue":
            # results and arguments large enough to be offloaded to the value store
            W = wf_tasks.TASKS
            big = W["mklist"](*["payload-%03d-" % i + "x" * 40 for i in range(3)], T["leafA"](self.x))
            return [W["sumlist"]([T["mid"](self.y), 1]), W["ident"](big), W["ident"]("y" * 200)]
        if self.name == "mixed":
            return [T["top"](self.x, self.y), T["guarded"](3), {"k": T["mid"](self.y)}]
        if self.name == "pipeline":
            return [T["pipeline"](os.path.join(self.d, "out-%s.txt" % tag), "c"), T["readf"](File(self.inp))]
        if self.name == "tagged":
            W = wf_tasks.TASKS
            import redun
            return [redun.apply_tags(W["nest_dict"](T["leafA"](self.x)), [("tk", "tv")], [("jk", 1)], [("ek", [1, 2])]),
                    W["ret_task"]("inc"), W["mkdc"](T["leafA"](self.x), (1, 2))]
        raise ValueError(self.name)


def open_backend(path, store=None):
    if store:
        from redun import Scheduler
        cfg = engine.make_config(db_uri="sqlite:///" + path, extra={"backend": {"value_store_path": store, "value_store_min_size": "60"}})
        sch = Scheduler(config=cfg, job_status_interval=None)
        sch.load()
        b = sch.backend
    else:
        b = engine.new_backend(db_uri="sqlite:///" + path)
    b._db_retries_backoff = 0.0
    return b


def value_store_audit(path, store):
    """Value rows whose bytes were offloaded (empty placeholder) must have their bytes in the value store."""
    if not store:
        return []
    con = dbaudit.connect(path)
    try:
        rows = con.execute("select value_hash from value where length(value)=0").fetchall()
    finally:
        con.close()
    return ["Value %s is a placeholder for offloaded bytes that are not in the value store" % h[:8]
            for (h,) in rows if not os.path.exists(os.path.join(store, h[:2], h[2:]))]


def run_on(path, w, tag="main", crash=None, transient=None, uuid_seed=1):
    """Returns (kind, outcome key, FaultPlan)."""
    backend = open_backend(path, getattr(w, "store", None))
    plan = faults.FaultPlan(backend, crash=crash, transient=transient)
    saved = uuid.uuid4
    uuid.uuid4 = seeded_uuid(uuid_seed)
    try:
        with plan:
            try:
                key, out, calls, c = hist.run(lambda: w.expr(tag), backend)
                return "done", key, plan, calls
            except faults.Crash:
                return "crashed", None, plan, []
    finally:
        uuid.uuid4 = saved
        hist.close_backend(backend)


def base_config():
    return {n: {"variant": 0, "versioned": n in ("leafB", "plus")} for n in hist.BODY}


def fresh_expect(w, edit=None):
    hist.reset(base_config())
    if edit:
        hist.define(*edit)
    key, _ = hist.fresh_result(lambda: w.expr("fresh"))
    return key


def same(a, b):
    return a == b if a[0] == "v" else (b[0] == "e" and a[1] == b[1])


def classify_crash(problems, msg):
    text = " ".join(problems) + " " + msg
    if "Task value without task row" in text or ("IntegrityError" in msg and ("job" in msg or "call_node" in msg or "evaluation" in msg or "FOREIGN KEY" in msg)):
        return "value-row-committed-before-its-task-or-file-row"
    if "File value without file row" in text:
        return "value-row-committed-before-its-task-or-file-row"
    return "unclassified"


def crash_case(ctx, wname, k, when, scratch, base_dump=None):
    d = os.path.join(scratch, "%s-%d-%s" % (wname, k, when))
    os.makedirs(d)
    w = Workload(wname, d)
    path = os.path.join(d, "r.db")
    hist.reset(base_config())
    kind, key, plan, _ = run_on(path, w, crash=(k, when))
    wit = {"workload": wname, "crash": [k, when]}
    ctx.ev()
    if kind != "crashed":
        ctx.count("crash_point_not_reached")
        return
    ctx.count("crash_points_fired")
    ctx.nontrivial(wit)
    problems = dbaudit.referential_audit(path) + value_store_audit(path, w.store)
    if w.store:
        ctx.count("value_store_audits")
    if problems:
        ctx.violation(classify_crash(problems, ""), "database not referentially consistent after death %s commit %d: %s" % (
            when, k, problems[:3]), wit)
    # recovery on copies of the crashed file
    edits = w.edits()
    edit = edits[k % len(edits)]
    for mode in ("same-then-edited", "edited-directly"):
        p2 = os.path.join(d, "copy-%s.db" % mode)
        shutil.copy(path, p2)
        steps = [None, edit] if mode == "same-then-edited" else [edit]
        for e in steps:
            hist.reset(base_config())
            if e:
                hist.define(*e)
            exp = fresh_expect(w, e)
            hist.reset(base_config())
            if e:
                hist.define(*e)
            try:
                kind2, key2, _, _ = run_on(p2, w, uuid_seed=2 + (1 if e else 0))
            except Exception as ex:
                kind2, key2 = "raised", ("e", type(ex).__name__, str(ex)[:300])
            ctx.count("recovery_runs")
            if kind2 == "done" and e is None and wname != "pipeline" and base_dump is not None:
                # after the interrupted recording was repeated, the content-addressed provenance must be complete:
                # every row of the fault-free recording is present (nothing was lost for good)
                now = dbaudit.dump(p2)
                # Calls above a catch() are exempt: when the death fell after the catch evaluation was recorded, the re-run
                # replays the recovery from that record (no recover job), so the guarded call and the root legitimately
                # get another child list and hence another call hash than in the fault-free recording.
                exempt = {r[0] for r in base_dump.get("call_node", []) if r[1] in ("'vh.guarded'", "'redun.root_task'")} \
                    if wname == "mixed" else set()
                for t in ("call_node", "argument", "argument_result", "call_edge", "call_subtree_task", "evaluation", "task", "subvalue"):
                    lost = set(base_dump.get(t, [])) - set(now.get(t, []))
                    if exempt and t in ("call_node", "call_edge", "call_subtree_task"):
                        lost = {r for r in lost if r[0] not in exempt}
                    elif exempt and t == "argument":
                        lost = {r for r in lost if not (set(r) & exempt)}
                    elif exempt and t == "argument_result":
                        lost = {r for r in lost if not (set(r) & exempt)
                                and not any(r[0] == a[0] for a in base_dump.get("argument", []) if set(a) & exempt)}
                    ctx.count("recovered_tables_compared")
                    if lost:
                        ctx.violation("records-missing-after-interrupted-recording-was-repeated:" + t,
                                      "after death %s commit %d and a full re-run, %d %s row(s) of the fault-free recording are "
                                      "still missing, e.g. %s" % (when, k, len(lost), t, sorted(lost)[0][:3]), dict(wit, mode=mode))
                        break
            if kind2 != "done" or not same(key2, exp):
                msg = "recovery (%s, %s) after death %s commit %d returned %r; an empty backend returns %r" % (
                    mode, "edit %s" % (e,) if e else "same program", when, k, key2, exp)
                ctx.violation(classify_crash([], repr(key2)), msg, dict(wit, mode=mode, edit=e))
                break
        pr = dbaudit.referential_audit(p2) + value_store_audit(p2, w.store)
        if pr and not problems:
            ctx.violation(classify_crash(pr, ""), "database inconsistent after recovery: %s" % pr[:3], dict(wit, mode=mode))
    shutil.rmtree(d, ignore_errors=True)


def transient_case(ctx, wname, s, scratch, base_dump, base_key):
    d = os.path.join(scratch, "%s-t%d" % (wname, s))
    os.makedirs(d)
    w = Workload(wname, d)
    path = os.path.join(d, "r.db")
    hist.reset(base_config())
    wit = {"workload": wname, "transient_statement": s}
    ctx.ev()
    try:
        kind, key, plan, _ = run_on(path, w, transient=s)
    except Exception as ex:
        ctx.violation("unclassified", "run with a transient error at statement %d raised %r outside Scheduler.run" % (s, ex), wit)
        shutil.rmtree(d, ignore_errors=True)
        return
    if not plan.fired:
        ctx.count("statement_point_not_reached")
        shutil.rmtree(d, ignore_errors=True)
        return
    ctx.count("statement_points_fired")
    ctx.nontrivial(wit)
    wit["statement"] = plan.fired_statement
    if key[0] == "e" and key[1] == "OperationalError" and "injected transient failure" in key[2]:
        # the operation was not retried at all: the premise of the retry clause is not met
        ctx.count("transient_error_not_retried")
        wit2 = dict(wit)
        ctx.extra.setdefault("not_retried_statements", [])
        if plan.fired_statement not in ctx.extra["not_retried_statements"]:
            ctx.extra["not_retried_statements"].append(plan.fired_statement)
    elif not same(key, base_key):
        mech = "retry-after-partial-flush-loses-pending-rows" if key[0] == "e" and key[1] in (
            "IntegrityError", "PendingRollbackError", "InvalidRequestError") else "unclassified"
        ctx.violation(mech, "transient error at statement %d (%s): run returned %r, fault-free run returns %r" % (
            s, plan.fired_statement, key, base_key), wit)
    else:
        ctx.count("retried_runs_same_result")
        now = dbaudit.dump(path)
        if wname == "pipeline":
            # output files carry fresh paths/mtimes in every run, so rows are compared by count per table
            diff = [(t, [], [], len(base_dump.get(t, [])), len(now.get(t, []))) for t in sorted(set(base_dump) | set(now))
                    if len(base_dump.get(t, [])) != len(now.get(t, []))]
        else:
            diff = dbaudit.diff_dumps(base_dump, now)
        if diff:
            ctx.violation("retry-loses-or-duplicates-records",
                          "after a retried operation (statement %d: %s) the database differs from the fault-free one: %r" % (
                              s, plan.fired_statement, [(t, a, b, na, nb) for t, a, b, na, nb in diff][:3]), wit)
        else:
            ctx.count("retried_runs_same_database")
    problems = dbaudit.referential_audit(path)
    if problems:
        ctx.violation("unclassified", "database inconsistent after transient error: %s" % problems[:3], wit)
    shutil.rmtree(d, ignore_errors=True)


def measure(wname, scratch):
    d = os.path.join(scratch, "%s-base" % wname)
    os.makedirs(d, exist_ok=True)
    w = Workload(wname, d)
    path = os.path.join(d, "r.db")
    if os.path.exists(path):
        os.unlink(path)
    hist.reset(base_config())
    kind, key, plan, calls = run_on(path, w)
    return plan.counter.commits, plan.counter.statements, key, dbaudit.dump(path)


def shard(ctx, wname, points, kind):
    scratch = tempfile.mkdtemp(prefix="verif_c22_")
    try:
        ncommit, nstmt, base_key, base_dump = measure(wname, scratch)
        ctx.extra.setdefault("workload_points", {})[wname] = {"commits": ncommit, "statements": nstmt}
        if kind == "crash":
            for k, when in points:
                if k <= ncommit:
                    crash_case(ctx, wname, k, when, scratch, base_dump)
        else:
            for s in points:
                if s <= nstmt:
                    transient_case(ctx, wname, s, scratch, base_dump, base_key)
        if kind == "crash":
            ctx.sample({"workload": wname, "commits": ncommit, "statements": nstmt, "result": list(base_key)[:2]})
    finally:
        shutil.rmtree(scratch, ignore_errors=True)


def shard_subprocess_validation(ctx, wname, ks):
    """Cross-validate the in-process crash injector against a real os._exit in a subprocess."""
    import subprocess
    import sys
    scratch = tempfile.mkdtemp(prefix="verif_c22v_")
    try:
        for k in ks:
            dumps = []
            for mode in ("inproc", "subproc"):
                d = os.path.join(scratch, "%s-%d-%s" % (wname, k, mode))
                os.makedirs(d)
                path = os.path.join(d, "r.db")
                if mode == "inproc":
                    w = Workload(wname, d)
                    hist.reset(base_config())
                    run_on(path, w, crash=(k, "after"))
                else:
                    subprocess.run([sys.executable, "-m", "vlib.checks.c22", "child", wname, d, str(k)], timeout=120,
                                   env=dict(os.environ))
                dmp = dbaudit.dump(path)
                # paths differ between the two directories: compare row counts per table
                dumps.append({t: len(r) for t, r in dmp.items()})
            ctx.count("traces_validated_against_impl")
            if dumps[0] != dumps[1]:
                ctx.violation("injector-disagrees-with-real-process-death", "row counts differ: %r vs %r" % (dumps[0], dumps[1]),
                              {"workload": wname, "k": k})
    finally:
        shutil.rmtree(scratch, ignore_errors=True)


WORKLOADS = ["deep", "mixed", "pipeline", "tagged", "bigvalue"]


def main(ctx):
    scratch = tempfile.mkdtemp(prefix="verif_c22m_")
    try:
        sizes = {w: measure(w, scratch)[:2] for w in WORKLOADS}
    finally:
        shutil.rmtree(scratch, ignore_errors=True)
    ctx.extra["workload_sizes"] = {w: {"commits": c, "statements": s} for w, (c, s) in sizes.items()}
    jobs = []
    quick = ctx.is_quick()
    wl = ["deep", "bigvalue"] if quick else WORKLOADS
    if quick and ctx.seed % 2:
        wl = ["mixed", "tagged", "pipeline"]
    total_points = 0
    for w in wl:
        nc, ns = sizes[w]
        pts = [(k, when) for k in range(1, nc + 1) for when in ("before", "after")]
        if quick:
            # every commit boundary once: 'after k' == 'before k+1' as far as the file is concerned, except
            # for the first and the last
            pts = [p for p in pts if p[1] == "after" and p[0] % 2 == (ctx.seed // 2) % 2] + [(1, "before")]
        total_points += len(pts)
        nsh = 5 if quick else 6
        for i in range(nsh):
            jobs.append({"wname": w, "points": pts[i::nsh], "kind": "crash"})
        step = 8 if quick else 1
        sp = list(range(1 + (ctx.seed % step), ns + 1, step))
        total_points += len(sp)
        nsh2 = 3 if quick else 8
        for i in range(nsh2):
            jobs.append({"wname": w, "points": sp[i::nsh2], "kind": "transient"})
    ctx.shards("shard", jobs, timeout=ctx.pick(900, 3400))
    ctx.shards("shard_subprocess_validation", [{"wname": "deep", "ks": [3, 9, 14] if quick else list(range(1, 30, 2))}], timeout=900)
    ctx.exhaustive = not quick
    ctx.extra["fault_points_planned"] = total_points
    ctx.extra["traces_validated_against_impl"] = ctx.counters.get("traces_validated_against_impl", 0)
    ctx.require("crash_points_fired", 40)
    ctx.require("statement_points_fired", 40)
    ctx.require("recovery_runs", 100)


def replay(ctx, witness):
    scratch = tempfile.mkdtemp(prefix="verif_c22r_")
    try:
        if "crash" in witness:
            nc, ns, key, dmp = measure(witness["workload"], scratch)
            crash_case(ctx, witness["workload"], witness["crash"][0], witness["crash"][1], scratch, dmp)
        else:
            nc, ns, key, dmp = measure(witness["workload"], scratch)
            transient_case(ctx, witness["workload"], witness["transient_statement"], scratch, dmp, key)
    finally:
        shutil.rmtree(scratch, ignore_errors=True)


if __name__ == "__main__":
    import sys
    if sys.argv[1] == "child":
        # real process death: os._exit right after commit k
        wname, d, k = sys.argv[2], sys.argv[3], int(sys.argv[4])
        from sqlalchemy import event
        w = Workload(wname, d)
        hist.reset(base_config())
        backend = open_backend(os.path.join(d, "r.db"))
        n = [0]

        def after_commit(session):
            n[0] += 1
            if n[0] == k:
                os._exit(77)
        event.listen(backend.session, "before_commit", lambda s: None)
        event.listen(backend.session, "after_commit", after_commit)
        uuid.uuid4 = seeded_uuid(1)
        hist.run(lambda: w.expr("main"), backend)
