"""C13 — promises settle once and notify every callback exactly once.

Offline trace checker over the real redun.promise.Promise: the harness drives op sequences,
instrumented callbacks append to one event log, a state snapshot of every promise is taken at
every log event, and the oracle is a set of trace invariants (see DESIGN.md §2 C13).
"""
import itertools
import random

from redun.promise import Promise, wait_promises

PROPERTY = "C13"
LEVEL = "exploration"
RULE = ("op sequences over 3 base promises: resolve/reject (unique values), then() with callback "
        "behaviours {ret, raise, return promise j, settle other, settle self again, re-register, "
        "absent}, Promise.all / wait_promises over subsets; exhaustive to a length bound then seeded "
        "random to length 25.  Non-trivial = distinct sequence in which at least one callback ran "
        "and at least one chained or aggregate promise settled.")
ASSUMPTIONS = [
    "single-threaded use, as in the scheduler event loop",
    "explicit resolve/reject ops target base promises only, so a chained promise's expected "
    "outcome is unambiguous",
    "order between a callback registered re-entrantly during notification and older callbacks "
    "not yet notified is recorded but not constrained",
]

BEHAVIOURS = ["ret", "raise", "retP0", "retP1", "retP2", "res0", "rej1", "resettle", "rereg"]
PAIRS = [("ret", None), (None, "ret"), ("ret", "ret"), ("raise", "raise"), ("retP0", "retP1"),
         ("retP2", "retP2"), ("res0", "rej1"), ("rej1", "res0"), ("resettle", "resettle"),
         ("rereg", "rereg"), (None, None), ("raise", "ret"), ("ret", "raise")]


class Err(Exception):
    pass


def state_of(p):
    if p.is_pending:
        return ("P",)
    if p.is_fulfilled:
        return ("F", p._value)
    return ("R", p._error)


class Run:
    def __init__(self):
        self.log = []  # (kind, data...)
        self.snaps = []  # parallel to log: tuple of states
        self.promises = []  # all promises under observation, by index
        self.kind = []  # "base" | ("child", reg_id) | ("all", inputs, t) | ("wait", inputs, t)
        self.regs = []  # dicts per registration
        self.uid = 0
        self.settle_calls = {}  # base idx -> first settle call (state tuple)
        for _ in range(3):
            self.add(Promise(), "base")

    def add(self, p, kind):
        self.promises.append(p)
        self.kind.append(kind)
        return len(self.promises) - 1

    def fresh(self):
        self.uid += 1
        return self.uid

    def ev(self, *e):
        self.log.append(e)
        self.snaps.append(tuple(state_of(p) for p in self.promises))

    # -- ops ---------------------------------------------------------------------------
    def settle(self, i, how, src="op"):
        if how == "res":
            v = "v%d" % self.fresh()
            self.ev("settle-call", i, "F", v, src)
            self.settle_calls.setdefault(i, ("F", v))
            self.promises[i].do_resolve(v)
        else:
            e = Err("e%d" % self.fresh())
            self.ev("settle-call", i, "R", e, src)
            self.settle_calls.setdefault(i, ("R", e))
            self.promises[i].do_reject(e)
        self.ev("settle-ret", i)

    def make_cb(self, reg, side, beh, parent_idx):
        def cb(arg):
            parent = self.promises[parent_idx]
            self.ev("cb-enter", reg, side, arg, parent.is_pending)
            out = None
            try:
                if beh == "ret":
                    out = ("val", "c%d" % self.fresh())
                    return out[1]
                if beh == "raise":
                    e = Err("x%d" % self.fresh())
                    out = ("exc", e)
                    raise e
                if beh.startswith("retP"):
                    j = int(beh[4])
                    out = ("prom", j)
                    return self.promises[j]
                if beh == "res0":
                    self.settle(0, "res", "cb")
                elif beh == "rej1":
                    self.settle(1, "rej", "cb")
                elif beh == "resettle":
                    # settling the already-settled promise again must change nothing
                    v = "again%d" % self.fresh()
                    self.ev("resettle-call", parent_idx)
                    parent.do_resolve(v)
                    parent.do_reject(Err(v))
                elif beh == "rereg":
                    self.then(parent_idx, "ret", "ret", nested=True)
                out = ("val", "c%d" % self.fresh())
                return out[1]
            finally:
                self.ev("cb-exit", reg, side, out)
        return cb

    def then(self, pi, rb, jb, nested=False):
        reg = len(self.regs)
        info = {"reg": reg, "parent": pi, "rb": rb, "jb": jb, "nested": nested,
                "parent_state_at_reg": state_of(self.promises[pi])}
        self.regs.append(info)
        self.ev("then-call", reg, pi)
        child = self.promises[pi].then(
            self.make_cb(reg, "res", rb, pi) if rb else None,
            self.make_cb(reg, "rej", jb, pi) if jb else None,
        )
        info["child"] = self.add(child, ("child", reg))
        self.ev("then-ret", reg)
        return info["child"]

    def all_(self, idxs):
        self.ev("all-call", tuple(idxs))
        t = len(self.log) - 1
        agg = Promise.all([self.promises[i] for i in idxs])
        self.add(agg, ("all", tuple(idxs), t))
        self.ev("all-ret")

    def wait_(self, idxs):
        self.ev("wait-call", tuple(idxs))
        t = len(self.log) - 1
        agg = wait_promises([self.promises[i] for i in idxs])
        self.add(agg, ("wait", tuple(idxs), t))
        self.ev("wait-ret")

    def apply(self, op):
        k = op[0]
        n = len(self.promises)
        if k == "res":
            self.settle(op[1], "res")
        elif k == "rej":
            self.settle(op[1], "rej")
        elif k == "then":
            self.then(op[1] % n, op[2], op[3])
        elif k == "all":
            self.all_([i % n for i in op[1]])
        elif k == "wait":
            self.wait_([i % n for i in op[1]])
        self.ev("quiescent")


def check_run(run):
    """Returns list of (invariant name, detail)."""
    bad = []
    log, snaps = run.log, run.snaps
    nprom = len(run.promises)

    def st(t, i):
        s = snaps[t]
        return s[i] if i < len(s) else ("P",)

    final = snaps[-1] if snaps else ()
    # I1: settle at most once, never change afterwards
    for i in range(nprom):
        prev = ("P",)
        for t in range(len(snaps)):
            cur = st(t, i)
            if prev[0] != "P" and cur != prev and not (cur[0] == prev[0] and cur[1] is prev[1]):
                bad.append(("settled-state-changed", "promise %d: %r -> %r at event %d" % (i, prev, cur, t)))
                break
            prev = cur
    # I2: first settlement wins for base promises
    for i in range(3):
        exp = run.settle_calls.get(i, ("P",))
        got = final[i]
        if exp[0] != got[0] or (exp[0] != "P" and exp[1] is not got[1]):
            bad.append(("first-settlement-wins", "base %d expected %r got %r" % (i, exp, got)))
    # I3: per registration: exactly-once, right side, right arg, after settlement
    enters = {}
    for t, e in enumerate(log):
        if e[0] == "cb-enter":
            enters.setdefault(e[1], []).append((t, e))
    then_ret = {e[1]: t for t, e in enumerate(log) if e[0] == "then-ret"}
    exits = {(e[1], e[2]): e[3] for e in log if e[0] == "cb-exit"}
    for info in run.regs:
        reg, pi = info["reg"], info["parent"]
        pf = final[pi]
        got = enters.get(reg, [])
        has_cb = {"res": info["rb"], "rej": info["jb"]}
        if pf[0] == "P":
            if got:
                bad.append(("callback-before-settlement", "reg %d ran while parent pending" % reg))
            exp_child = ("P",)
        else:
            side = "res" if pf[0] == "F" else "rej"
            if has_cb[side]:
                if len(got) != 1:
                    bad.append(("callback-not-exactly-once", "reg %d ran %d times" % (reg, len(got))))
                    continue
                t, e = got[0]
                if e[2] != side:
                    bad.append(("wrong-callback-side", "reg %d parent %s ran %s" % (reg, pf[0], e[2])))
                if e[3] is not pf[1]:
                    bad.append(("callback-wrong-argument", "reg %d got %r expected %r" % (reg, e[3], pf[1])))
                if e[4]:
                    bad.append(("callback-before-settlement", "reg %d entered while parent pending" % reg))
                if info["parent_state_at_reg"][0] != "P" and not (t < then_ret.get(reg, -1)):
                    bad.append(("late-registration-not-immediate", "reg %d" % reg))
                out = exits.get((reg, side))
                if out is None:
                    exp_child = None
                elif out[0] == "val":
                    exp_child = ("F", out[1])
                elif out[0] == "exc":
                    exp_child = ("R", out[1])
                else:
                    exp_child = final[out[1]]  # adopts the returned promise's eventual outcome
            else:
                if got:
                    bad.append(("unexpected-callback", "reg %d" % reg))
                exp_child = pf  # pass-through
        ci = info["child"]
        gotc = final[ci]
        if exp_child is not None and (gotc[0] != exp_child[0] or (gotc[0] != "P" and gotc[1] is not exp_child[1])):
            bad.append(("chained-outcome", "reg %d (%s/%s) child expected %r got %r" % (
                reg, info["rb"], info["jb"], exp_child, gotc)))
    # I4: registration order among callbacks registered before settlement on the same promise
    by_parent = {}
    for info in run.regs:
        if info["parent_state_at_reg"][0] == "P" and info["reg"] in enters:
            by_parent.setdefault(info["parent"], []).append(info["reg"])
    for pi, regs in by_parent.items():
        times = [enters[r][0][0] for r in regs]
        if times != sorted(times):
            bad.append(("registration-order", "promise %d regs %r ran at %r" % (pi, regs, times)))
    # I5: aggregates
    for idx, kind in enumerate(run.kind):
        if not isinstance(kind, tuple) or kind[0] not in ("all", "wait"):
            continue
        inputs, t0 = kind[1], kind[2]
        for t in range(t0, len(snaps)):
            ins = [st(t, i) for i in inputs]
            me = st(t, idx)
            if kind[0] == "all":
                ready = any(s[0] == "R" for s in ins) or all(s[0] == "F" for s in ins)
            else:
                ready = all(s[0] != "P" for s in ins)
            if me[0] != "P" and not ready:
                bad.append(("aggregate-settled-early", "%s %d at event %d" % (kind[0], idx, t)))
                break
            if log[t][0] == "quiescent" and ready and me[0] == "P":
                bad.append(("aggregate-not-settled", "%s %d at event %d inputs %r" % (kind[0], idx, t, ins)))
                break
        me = final[idx]
        ins = [final[i] for i in inputs]
        if kind[0] == "wait":
            if me[0] == "F":
                if not (isinstance(me[1], list) and len(me[1]) == len(inputs)
                        and all(a is run.promises[i] for a, i in zip(me[1], inputs))):
                    bad.append(("wait-result", "wait %d result is not the input list" % idx))
            elif me[0] == "R":
                bad.append(("wait-rejected", "wait %d" % idx))
        else:
            if me[0] == "F":
                vals = [s[1] for s in ins]
                if not (all(s[0] == "F" for s in ins) and isinstance(me[1], list)
                        and len(me[1]) == len(vals) and all(a is b for a, b in zip(me[1], vals))):
                    bad.append(("all-result-order", "all %d got %r inputs %r" % (idx, me[1], ins)))
            elif me[0] == "R":
                # "first rejection observed": an input whose state is already rejected need not
                # have been *observed* by the aggregate yet (its listeners are notified in
                # registration order), so the sound candidates are the inputs rejected at the
                # first snapshot at which the aggregate itself is rejected; inputs already
                # rejected when the aggregate was created are observed in input order.
                cands = None
                rej0 = [st(t0, i) for i in inputs if st(t0, i)[0] == "R"]
                if rej0:
                    cands = [rej0[0][1]]
                else:
                    for t in range(t0, len(snaps)):
                        if st(t, idx)[0] == "R":
                            cands = [st(t, i)[1] for i in inputs if st(t, i)[0] == "R"]
                            break
                if cands is None or not any(me[1] is c for c in cands):
                    bad.append(("all-first-rejection", "all %d rejected with %r, candidates %r" % (idx, me[1], cands)))
    return bad


def alphabet(small=False):
    ops = [("res", i) for i in range(3)] + [("rej", i) for i in range(3)]
    pairs = PAIRS[:7] if small else PAIRS
    for p in range(4 if small else 5):
        for rb, jb in pairs:
            ops.append(("then", p, rb, jb))
    subsets = [(0, 1), (1, 0, 2), (0, 3), (3, 4), (0, 0), ()]
    for s in (subsets[:3] if small else subsets):
        ops.append(("all", s))
        ops.append(("wait", s))
    return ops


def run_seq(ctx, ops):
    run = Run()
    try:
        for op in ops:
            run.apply(op)
    except Exception as e:  # nothing in the driver may escape: callbacks' exceptions are caught by then()
        ctx.violation("exception-escaped", "op sequence raised %r" % (e,), {"ops": ops})
        return
    bad = check_run(run)
    ctx.ev()
    ncb = sum(1 for e in run.log if e[0] == "cb-enter")
    ctx.count("callbacks_run", ncb)
    ctx.count("log_events", len(run.log))
    ctx.count("registrations", len(run.regs))
    ctx.count("aggregates", sum(1 for k in run.kind if isinstance(k, tuple) and k[0] in ("all", "wait")))
    settled_derived = sum(1 for i, k in enumerate(run.kind) if k != "base" and run.snaps[-1][i][0] != "P")
    ctx.count("derived_promises_settled", settled_derived)
    if ncb and settled_derived:
        ctx.nontrivial(ops)
    for name, detail in bad:
        ctx.violation(name, detail, {"ops": ops})
    return run


def shard_exhaustive(ctx, length, start, step, small):
    ops = alphabet(small)
    for n, seq in enumerate(itertools.product(ops, repeat=length)):
        if n % step != start:
            continue
        run_seq(ctx, [list(o) for o in seq])
    ctx.sample({"exhaustive_length": length, "alphabet": len(ops)})


def shard_random(ctx, n, sub):
    rnd = random.Random("%s-%s-c13" % (ctx.seed, sub))
    ops = alphabet(False)
    for k in range(n):
        L = rnd.randint(4, 25)
        seq = []
        for _ in range(L):
            o = rnd.choice(ops)
            if o[0] == "then":
                o = ("then", rnd.randint(0, 12), rnd.choice(BEHAVIOURS + [None]), rnd.choice(BEHAVIOURS + [None]))
            elif o[0] in ("all", "wait"):
                o = (o[0], tuple(rnd.randint(0, 12) for _ in range(rnd.randint(0, 4))))
            seq.append(list(o))
        run_seq(ctx, seq)
        if k < 2:
            ctx.sample({"ops": seq})


def main(ctx):
    if ctx.is_quick():
        # lengths 1..2 exhaustively over the full alphabet, length 3 over the small alphabet
        ctx.shards("shard_exhaustive", [{"length": 1, "start": 0, "step": 1, "small": False},
                                        {"length": 2, "start": 0, "step": 1, "small": False}] +
                   [{"length": 3, "start": s, "step": 6, "small": True} for s in range(6)])
        ctx.shards("shard_random", [{"n": 1500, "sub": s} for s in range(8)])
        ctx.extra["exhaustive_lengths"] = "<=2 full alphabet, 3 small alphabet"
    else:
        ctx.shards("shard_exhaustive", [{"length": 1, "start": 0, "step": 1, "small": False},
                                        {"length": 2, "start": 0, "step": 1, "small": False}] +
                   [{"length": 3, "start": s, "step": 16, "small": False} for s in range(16)] +
                   [{"length": 4, "start": s, "step": 32, "small": True} for s in range(32)])
        ctx.shards("shard_random", [{"n": 40000, "sub": s} for s in range(16)])
        ctx.extra["exhaustive_lengths"] = "<=3 full alphabet, 4 small alphabet"
    ctx.require("callbacks_run", 1000)
    ctx.require("aggregates", 100)


def replay(ctx, witness):
    run = run_seq(ctx, witness["ops"])
    if run:
        for e in run.log:
            print("  ", e)
