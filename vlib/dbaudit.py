"""Read a redun SQLite file through raw SQL: referential audit and normalised dumps."""
import sqlite3

TIME_COLS = {"timestamp", "start_time", "end_time", "updated_time"}


def connect(path):
    con = sqlite3.connect(path)
    con.row_factory = sqlite3.Row
    return con


def referential_audit(path):
    """Returns list of problems (strings).  Declared foreign keys + logical references."""
    con = connect(path)
    problems = []
    try:
        for row in con.execute("PRAGMA foreign_key_check"):
            problems.append("fk: table %s rowid %s -> %s" % (row[0], row[1], row[2]))
        q = [
            ("job.call_hash without call_node",
             "select id from job where call_hash is not null and call_hash not in (select call_hash from call_node)"),
            ("job.task_hash without task", "select id from job where task_hash not in (select hash from task)"),
            ("job.execution_id without execution", "select id from job where execution_id not in (select id from execution)"),
            ("execution.job_id without job", "select id from execution where job_id not in (select id from job)"),
            ("call_node.task_hash without task", "select call_hash from call_node where task_hash not in (select hash from task)"),
            ("call_node.value_hash without value", "select call_hash from call_node where value_hash not in (select value_hash from value)"),
            ("evaluation.value_hash without value", "select eval_hash from evaluation where value_hash not in (select value_hash from value)"),
            ("evaluation.task_hash without task", "select eval_hash from evaluation where task_hash not in (select hash from task)"),
            ("Task value without task row",
             "select value_hash from value where type in ('redun.Task') and value_hash not in (select hash from task)"),
            ("File value without file row",
             "select value_hash from value where type in ('redun.File') and value_hash not in (select value_hash from file)"),
            ("argument.call_hash without call_node", "select arg_hash from argument where call_hash not in (select call_hash from call_node)"),
            ("call_edge endpoint missing",
             "select parent_id from call_edge where parent_id not in (select call_hash from call_node) or child_id not in (select call_hash from call_node)"),
            ("call_subtree_task without task", "select call_hash from call_subtree_task where task_hash not in (select hash from task)"),
            ("tag on missing job", "select tag_hash from tag where entity_type='Job' and entity_id not in (select id from job)"),
            ("tag on missing execution", "select tag_hash from tag where entity_type='Execution' and entity_id not in (select id from execution)"),
            ("tag on missing call_node", "select tag_hash from tag where entity_type='CallNode' and entity_id not in (select call_hash from call_node)"),
            ("tag on missing value", "select tag_hash from tag where entity_type='Value' and entity_id not in (select value_hash from value)"),
            ("tag on missing task", "select tag_hash from tag where entity_type='Task' and entity_id not in (select hash from task)"),
        ]
        for name, sql in q:
            rows = con.execute(sql).fetchall()
            if rows:
                problems.append("%s: %d row(s), e.g. %s" % (name, len(rows), rows[0][0]))
    finally:
        con.close()
    return problems


def dump(path, drop_tables=("alembic_version", "redun_version")):
    """table -> sorted list of row tuples (time columns dropped)."""
    con = connect(path)
    out = {}
    try:
        tables = [r[0] for r in con.execute("select name from sqlite_master where type='table'")]
        for t in sorted(tables):
            if t in drop_tables:
                continue
            cols = [r[1] for r in con.execute('PRAGMA table_info("%s")' % t)]
            keep = [c for c in cols if c not in TIME_COLS]
            rows = con.execute('select %s from "%s"' % (", ".join('"%s"' % c for c in keep), t)).fetchall()
            out[t] = sorted(tuple(repr(x) for x in r) for r in rows)
    finally:
        con.close()
    return out


def diff_dumps(a, b):
    """Returns list of (table, only_in_a, only_in_b) multiset differences."""
    import collections
    res = []
    for t in sorted(set(a) | set(b)):
        ca, cb = collections.Counter(a.get(t, [])), collections.Counter(b.get(t, []))
        if ca != cb:
            res.append((t, list((ca - cb).elements())[:3], list((cb - ca).elements())[:3], sum((ca - cb).values()), sum((cb - ca).values())))
    return res


def counts(path):
    con = connect(path)
    try:
        return {t: con.execute('select count(*) from "%s"' % t).fetchone()[0]
                for (t,) in con.execute("select name from sqlite_master where type='table'")}
    finally:
        con.close()
