"""Task library 'vwf' used by generated workflow programs.

Behaviour is selected by arguments, never by generated source, so that process-pool workers and
sub-schedulers can import the tasks by name.  Non-leaf tasks are written as AST templates so that
the harness's reference interpreter and redun evaluate *the same* returned expression.
"""
import collections
import dataclasses
import typing

from redun import task

from vlib import trace

redun_namespace = "vwf"


class VErr(Exception):
    pass


class VErrB(Exception):
    pass


class VErrSub(VErr):
    pass


ERRORS = {"VErr": VErr, "VErrB": VErrB, "VErrSub": VErrSub, "ValueError": ValueError,
          "KeyError": KeyError, "ZeroDivisionError": ZeroDivisionError, "Exception": Exception,
          "TypeError": TypeError, "IndexError": IndexError, "AttributeError": AttributeError}

NT = collections.namedtuple("NT", ["a", "b"])


@dataclasses.dataclass
class DC:
    a: typing.Any
    b: typing.Any = None


# ---- plain module-level python functions (apply_func / as_task) --------------------------------
def py_add(a, b=0):
    return a + b


def py_len(xs):
    return len(xs)


def py_max(*xs):
    return max(xs)


PYFUNCS = {"py_add": py_add, "py_len": py_len, "py_max": py_max}

# ---- leaf tasks ---------------------------------------------------------------------------------
LEAF = {}      # name -> python function (the semantics; the redun task calls exactly this)
TEMPLATE = {}  # name -> function(args...) -> AST of the expression the task returns
TASKS = {}     # name -> redun Task


def leaf(fn):
    LEAF[fn.__name__] = fn
    return fn


@leaf
def add(a, b):
    return a + b


@leaf
def mul(a, b):
    return a * b


@leaf
def neg(a):
    return -a


@leaf
def inc(x):
    return x + 1


@leaf
def ident(x):
    return x


@leaf
def isodd(x):
    return x % 2 == 1


@leaf
def mklist(*xs):
    return list(xs)


@leaf
def mkdict(k, v):
    return {k: v, "other": [v, k]}


@leaf
def mknt(a, b):
    return NT(a, b)


@leaf
def mkdc(a, b):
    return DC(a, b)


@leaf
def mktuple(a, b):
    return (a, b)


@leaf
def sumlist(xs):
    return sum(xs)


@leaf
def dup(x):
    return [x, x + 100]


@leaf
def fail(kind, msg):
    raise ERRORS[kind](msg)


@leaf
def fail_if(x, thr):
    if x > thr:
        raise VErr("too big: %d" % x)
    return x


@leaf
def kwonly(a, *, b=5, c=7):
    return a * 100 + b * 10 + c


@leaf
def varargs(a, *rest, k=1):
    return a + sum(rest) * k


@leaf
def recov_msg(err):
    return "recovered:%s:%s" % (type(err).__name__, err)


@leaf
def recov_const(err):
    return -1


@leaf
def recov_reraise(err):
    raise err


@leaf
def recov_other(err):
    raise VErrB("while handling %s" % (err,))


@leaf
def count_errs(values):
    flat = values if isinstance(values, (list, tuple)) else list(values.values())
    return ["n_err", sum(1 for v in flat if isinstance(v, Exception)),
            [v for v in flat if not isinstance(v, Exception)]]


@leaf
def raise_count(values):
    flat = values if isinstance(values, (list, tuple)) else list(values.values())
    raise VErrB("%d error(s)" % sum(1 for v in flat if isinstance(v, Exception)))


def _mk(name, fn):
    # Each leaf body logs the invocation and then computes exactly LEAF[name].
    def body(*args, **kwargs):
        trace.enter(name, *args, *sorted(kwargs.items()))
        return fn(*args, **kwargs)
    body.__name__ = name
    body.__qualname__ = name
    body.__module__ = __name__
    body.__wrapped__ = fn  # inspect.signature follows __wrapped__
    import inspect
    body.__signature__ = inspect.signature(fn)
    return body


for _n, _f in list(LEAF.items()):
    TASKS[_n] = task(name=_n, namespace="vwf", source="leaf:%s:v1" % _n)(_mk(_n, _f))


# ---- non-leaf tasks: body = build(template(args)) ----------------------------------------------
def V(x):
    return ["val", x]


def C(name, *args, **kwargs):
    return ["call", name, list(args), dict(kwargs), {}]


def template(fn):
    TEMPLATE[fn.__name__] = fn
    return fn


@template
def inc2(x):
    return C("inc", C("inc", V(x)))


@template
def fan(n, x):
    return ["cont", "list", [C("add", V(x), V(i)) for i in range(n)]]


@template
def rec(n, acc):
    if n <= 0:
        return V(acc)
    return C("rec", V(n - 1), C("add", V(acc), V(n)))


@template
def nest_dict(x):
    return ["cont", "dict", [[V("k"), C("inc", V(x))], [C("ident", V("dyn")), ["cont", "tuple", [C("neg", V(x)), V(3)]]]]]


@template
def ret_task(name):
    return ["taskval", name]


@template
def thread_roundtrip(x):
    return C("take_thread", C("mk_thread", V(x)))


@template
def mk_thread(x):
    return ["fork", C("inc", V(x))]


@template
def take_thread(th):
    return ["join", V(th)]


@template
def twice_same(x):
    # the same call twice under one parent (CSE / pending-expression merging)
    return ["cont", "list", [C("inc", V(x)), C("inc", V(x)), C("add", C("inc", V(x)), V(0))]]


@template
def ctx_read(path, default):
    return ["getctx", path, default]


@template
def ctx_child(path, default):
    return C("ctx_read", V(path), V(default))


@template
def lazy_cond(x):
    return ["cond", [C("isodd", V(x)), C("inc", V(x)), C("neg", V(x))]]


@template
def deep_fail(n, kind, msg):
    # a failure n task-levels below the caller (ancestors of the failing job)
    if n <= 0:
        return C("add", C("fail", V(kind), V(msg)), V(1))
    return ["cont", "list", [C("deep_fail", V(n - 1), V(kind), V(msg)), C("inc", V(n))]]


@template
def wrap_call(name, x, limits):
    # the same call (with the same resource demand) made from beneath a different parent job
    return ["call", name, [V(x)], {}, {"limits": limits} if limits else {}]


@template
def ctx_tree(spec):
    """spec = {"reads": [[path, default], ...], "children": [[opts, spec], ...]}; opts holds the
    update_context overrides of the child call."""
    return ["cont", "dict", [
        [V("reads"), ["cont", "list", [["getctx", p, d] for p, d in spec.get("reads", [])]]],
        [V("children"), ["cont", "list", [["call", "ctx_tree", [V(sub)], {}, dict(opts)] for opts, sub in spec.get("children", [])]]],
        # a child whose expression-valued default reads the context, optionally under its own override
        [V("dflt"), ["call", "dflt_ctx", [V(0)], {}, dict(spec.get("dflt_opts") or {})]] if spec.get("dflt") else [V("dflt"), V(None)],
    ]]


def _mk_t(name, fn):
    def body(*args, **kwargs):
        from vlib import wf
        trace.enter(name, *args, *sorted(kwargs.items()))
        return wf.build(fn(*args, **kwargs))
    body.__name__ = name
    body.__qualname__ = name
    body.__module__ = __name__
    import inspect
    body.__signature__ = inspect.signature(fn)
    return body


for _n, _f in list(TEMPLATE.items()):
    TASKS[_n] = task(name=_n, namespace="vwf", source="tmpl:%s:v1" % _n)(_mk_t(_n, _f))


# ---- tasks with expression-valued defaults (defaults are real redun expressions) ---------------
DEFAULTS = {}  # name -> {param: AST}


def _dflt_y():
    return TASKS["add"](1, 2)


def _mk_dflt():
    y_default = TASKS["add"](1, 2)
    z_default = [TASKS["inc"](10), 5]

    def dflt(x, y=y_default, z=z_default):
        trace.enter("dflt", x, y, z)
        return x * 1000 + y * 10 + z[0] + z[1]
    DEFAULTS["dflt"] = {"y": C("add", V(1), V(2)), "z": ["cont", "list", [C("inc", V(10)), V(5)]]}
    LEAF["dflt"] = lambda x, y, z: x * 1000 + y * 10 + z[0] + z[1]
    TASKS["dflt"] = task(name="dflt", namespace="vwf", source="dflt:v1")(dflt)

    from redun import get_context
    ctx_default = get_context("k.sub", "nodefault")

    def dflt_ctx(x, c=ctx_default):
        trace.enter("dflt_ctx", x, c)
        return [x, c]
    DEFAULTS["dflt_ctx"] = {"c": ["getctx", "k.sub", "nodefault"]}
    LEAF["dflt_ctx"] = lambda x, c: [x, c]
    TASKS["dflt_ctx"] = task(name="dflt_ctx", namespace="vwf", source="dflt_ctx:v1")(dflt_ctx)


_mk_dflt()


def _mk_dflt_task():
    # default argument that is a *task call* whose subtree reads the context
    m_default = TASKS["ctx_child"]("k.sub", "none")

    def dflt_task(x, m=m_default):
        trace.enter("dflt_task", x, m)
        return [x, m]
    DEFAULTS["dflt_task"] = {"m": C("ctx_child", V("k.sub"), V("none"))}
    LEAF["dflt_task"] = lambda x, m: [x, m]
    TASKS["dflt_task"] = task(name="dflt_task", namespace="vwf", source="dflt_task:v1")(dflt_task)


_mk_dflt_task()


# ---- handles --------------------------------------------------------------------------------------
from redun import Handle  # noqa: E402


class VHandle(Handle):
    def __init__(self, name, tag="t", namespace=None):
        self.tag = tag


def _h_step(h, x=0):
    trace.enter("h_step", h.__handle__.fullname, x)
    return h


def _h_use(h, x=0):
    trace.enter("h_use", h.__handle__.fullname, x)
    return x


def _h_two(h):
    trace.enter("h_two", h.__handle__.fullname)
    return [TASKS["h_step"](h, TASKS["inc"](1)), TASKS["h_step"](h, 5)]


for _n, _f in (("h_step", _h_step), ("h_use", _h_use), ("h_two", _h_two)):
    _f.__name__ = _n
    TASKS[_n] = task(name=_n, namespace="vwf", source="%s:v1" % _n)(_f)


# ---- async twins (real LocalExecutor only) ------------------------------------------------------
async def _a_add(a, b):
    trace.enter("a_add", a, b)
    return a + b


async def _a_inc2(x):
    trace.enter("a_inc2", x)
    y = await TASKS["inc"](x)
    return TASKS["inc"](y)


async def _a_fail(kind, msg):
    trace.enter("a_fail", kind, msg)
    raise ERRORS[kind](msg)


_a_add.__name__ = "a_add"
_a_inc2.__name__ = "a_inc2"
_a_fail.__name__ = "a_fail"
TASKS["a_add"] = task(name="a_add", namespace="vwf", cache=False, source="a_add:v1")(_a_add)
TASKS["a_inc2"] = task(name="a_inc2", namespace="vwf", cache=False, source="a_inc2:v1")(_a_inc2)
TASKS["a_fail"] = task(name="a_fail", namespace="vwf", cache=False, source="a_fail:v1")(_a_fail)
LEAF["a_add"] = lambda a, b: a + b
LEAF["a_fail"] = LEAF["fail"]
TEMPLATE["a_inc2"] = TEMPLATE["inc2"]
ASYNC = {"a_add", "a_inc2", "a_fail"}
