"""C12 — failures propagate and are never replayed from the cache.

Trace + database monitors on generated programs with error-raising leaves: (1) the exception raised by
Scheduler.run is one the reference interpreter allows (same type and message, in fact the same
object the task raised); (2) the job whose task raised it and every ancestor has a Job row whose
displayed status is FAILED; (3) in a second and third execution on the same backend (default and
check_valid=shallow, also inside catch whose recover re-raises) the failing leaf's function is invoked
again, i.e. the failure is never served from the backend cache.
"""
import random

from redun.backends.db import Job as JobRow

from vlib import ctl, engine, trace, wf

PROPERTY = "C12"
LEVEL = "exploration"
RULE = ("C01's program generator restricted to programs whose reference outcome set contains only errors (error leaves "
        "at any depth, inside containers, operators, cond/seq/map/catch(re-raise)/catch_all forms), some template calls "
        "marked check_valid=shallow; each program is executed 3 times on one backend under different schedules.  "
        "Non-trivial = distinct program whose failing job has >=1 ancestor besides the root.")
ASSUMPTIONS = ["the failing job is identified by object identity of the exception delivered by run() (in-process executor)"]


def make_shallow(ast, rnd):
    def fn(c):
        if c[1] in wf.T.TEMPLATE and rnd.random() < 0.5:
            c[4] = dict(c[4], options={"check_valid": "shallow"})
        return c
    return wf.map_calls(ast, fn)


def gen_failing(rnd, depth):
    for _ in range(200):
        g = wf.Gen(rnd, max_depth=depth, fan=3, err_budget=rnd.choice([1, 1, 2]))
        ast = g.program()
        try:
            exp, _ = wf.expected_outcomes(ast)
        except wf.RefTooBig:
            continue
        if exp and all(o[0] == "e" for o in exp):
            return ast, exp
    return None, None


def shard(ctx, n, sub, depth):
    rnd = random.Random("%s-%s-c12" % (ctx.seed, sub))
    backend = engine.new_backend()
    for i in range(n):
        ast, exp = gen_failing(rnd, depth)
        if ast is None:
            continue
        ast = make_shallow(ast, rnd)
        wit = {"ast": ast, "where": {"seed": ctx.seed, "sub": sub, "i": i}}
        ctx.ev()
        task_raised_keys = set()
        for run_i in range(3):
            trace.reset()
            name, ch = engine.choosers(rnd, 5)[run_i]
            out, c, s = engine.run_controlled(wf.build(ast), ch, backend=backend, cache=True)
            calls = trace.snapshot()
            ctx.count("executions")
            key = engine.outcome_key(out)
            w2 = dict(wit, run=run_i, schedule=name)
            if out[0] == "deadlock":
                ctx.violation("workflow-does-not-stop", "dead quiescent state after a failure: %r" % (out[1],), w2)
                break
            if out[0] != "e":
                ctx.violation("failure-not-propagated", "run %d returned %r; reference allows only %r" % (run_i, key, sorted(exp)), w2)
                break
            if engine.is_db_failure(out[1]):
                backend = engine.new_backend()
                ctx.violation("unclassified", "database failure: %r" % (key,), w2)
                break
            if key not in exp:
                ctx.violation("wrong-error-propagated", "run %d raised %r; reference allows %r" % (run_i, key, sorted(exp)), w2)
                break
            ctx.count("errors_propagated")
            # (3) the error delivered by this execution must come from a task function executed in THIS
            # execution (same exception object as a failing report), never from a recorded ErrorValue
            err = out[1]
            raised_here = [r for r in c.reports if not r["ok"] and r["error"] is err]
            failed_keys_here = {(type(r["error"]).__name__, str(r["error"])) for r in c.reports if not r["ok"]}
            if raised_here:
                task_raised_keys.add((key[1], key[2]))
                ctx.count("errors_raised_by_an_executed_task")
                if run_i > 0:
                    ctx.count("reexecutions_of_failed_calls_observed")
            elif (key[1], key[2]) in failed_keys_here:
                # an equal call was executed and failed in THIS execution and its failure was handed to a duplicate of the
                # call (common-subexpression scope, possibly through the recorded error): allowed - the statement only
                # forbids replaying failures of EARLIER executions
                ctx.count("errors_delivered_to_a_duplicate_within_the_execution")
                if run_i > 0:
                    ctx.count("reexecutions_of_failed_calls_observed")
            elif (key[1], key[2]) in task_raised_keys:
                ctx.violation("failure-replayed-from-cache", "execution %d raised %r, which no task function executed in this "
                              "execution raised (failing reports here: %r)" % (run_i, key, sorted(failed_keys_here)), w2)
                break
            else:
                ctx.count("errors_raised_by_the_evaluator")
            # (2) failing job and ancestors are recorded FAILED
            failing = [info for info in c.jobs.values() if info.get("settled_obj") is err and info.get("prov", True)]
            # the job that raised: deepest job settled with this very exception object
            if failing:
                # every job that was rejected with this very error before the workflow stopped: the raising job (or the
                # duplicate that was handed its failure) and the ancestors the error travelled through on its way to the
                # root.  When an equal call sits beneath two parents, the error can reach the root along one chain while
                # the jobs of the other chain have not been rejected yet - those are not "ancestors that failed".
                chain = sorted(failing, key=lambda inf: -depth_of(c, inf))
                if len(chain) >= 3:
                    ctx.nontrivial(ast)
                session = s.backend.session
                for info in chain:
                    if not info.get("prov", True):
                        continue
                    row = session.query(JobRow).filter_by(id=info["id"]).one_or_none()
                    ctx.count("job_rows_checked")
                    if row is None:
                        ctx.violation("failed-job-not-recorded", "no Job row for %s" % info["task"], w2)
                    elif row.status != "FAILED":
                        ctx.violation("ancestor-not-recorded-failed", "job %s (ancestor distance %d) has displayed status %s" % (
                            info["task"], depth_of(c, chain[0]) - depth_of(c, info), row.status), w2)
            else:
                ctx.count("failing_job_not_identified")
        if i < 2:
            ctx.sample({"ast": ast, "allowed_errors": sorted(map(list, exp))})


def depth_of(c, info):
    d = 0
    cur = info
    while cur is not None and cur.get("parent") in c.jobs:
        cur = c.jobs[cur["parent"]]
        d += 1
    return d


def main(ctx):
    if ctx.is_quick():
        ctx.shards("shard", [{"n": 12, "sub": s, "depth": 4} for s in range(16)], timeout=600)
    else:
        ctx.shards("shard", [{"n": 600, "sub": s, "depth": 6} for s in range(16)], timeout=3400)
    ctx.require("errors_propagated", 200)
    ctx.require("reexecutions_of_failed_calls_observed", 100)
    ctx.require("job_rows_checked", 300)


def replay(ctx, witness):
    import json
    print(json.dumps(witness["ast"]))
    exp, _ = wf.expected_outcomes(witness["ast"])
    print("allowed:", sorted(exp))
    backend = engine.new_backend()
    for run_i in range(3):
        trace.reset()
        out, c, s = engine.run_controlled(wf.build(witness["ast"]), ctl.ExtremeChooser("eager_fifo"), backend=backend)
        print("run", run_i, engine.outcome_key(out), [cl for cl in trace.snapshot() if cl[0].startswith(("fail", "recov", "raise"))])
