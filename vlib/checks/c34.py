"""C34 — tag values survive display and re-parsing (round-trip monitor on the real functions)."""
import json
import random

from redun.tags import format_tag_value, parse_tag_value

PROPERTY = "C34"
LEVEL = "exploration"
RULE = ("seeded JSON values: strings biased to brackets/quotes/numeric-looking/literal/whitespace/"
        "unicode-digit text, ints, floats (finite), bools, null, nested lists and str-keyed dicts; "
        "non-trivial = distinct value that is a string needing a quoting decision or a compound")
ASSUMPTIONS = ["values are JSON-compatible (finite floats, str keys)"]

STARTS = ["[", "{", '"', "[]", "{}", '""', "[1]", '{"a":1}', '"x"', "[abc", '"x', "{", "[ 1", "{a",
          '"a" b', "[1,", "[\"", "'", "\\", ""]
BODIES = ["", "abc", "1", "1.5", "-3", "1e5", "1_000", "true", "false", "null", "True", "None", "nan",
          "inf", "-inf", "Infinity", "NaN", "0x10", "١٢", "１２", " ", "a b", "a,b", ",", "\t", "\n",
          "a\nb c", " 1", "1 ", "\t1", "1\n", "é", "\U0001f600", "key=value", "=", "--", "+1", ".5",
          "5.", "1e", "e1", "00", "-0", "1e400", "-1e400"]


def canon(v):
    if isinstance(v, bool):
        return ("b", v)
    if v is None:
        return ("n",)
    if isinstance(v, int):
        return ("i", v)
    if isinstance(v, float):
        return ("f", repr(v))
    if isinstance(v, str):
        return ("s", v)
    if isinstance(v, list):
        return ("l", [canon(x) for x in v])
    if isinstance(v, dict):
        return ("d", sorted((k, canon(x)) for k, x in v.items()))
    return ("?", repr(v))


def gen_str(rnd):
    r = rnd.random()
    if r < 0.35:
        return rnd.choice(STARTS) + rnd.choice(BODIES)
    if r < 0.7:
        return rnd.choice(BODIES) + rnd.choice(["", rnd.choice(BODIES)])
    return "".join(rnd.choice('[]{}",: \\\'abz019.-+eE\n\t_é') for _ in range(rnd.randint(0, 10)))


def gen(rnd, depth=2):
    r = rnd.random()
    if r < 0.6 or depth == 0:
        k = rnd.random()
        if k < 0.7:
            return gen_str(rnd)
        if k < 0.8:
            return rnd.choice([0, 1, -1, 10 ** 20, rnd.randint(-10 ** 6, 10 ** 6)])
        if k < 0.9:
            return rnd.choice([0.0, -0.0, 1.5, 1e22, 1e-7, -2.5e300, rnd.uniform(-100, 100)])
        return rnd.choice([True, False, None])
    if r < 0.8:
        return [gen(rnd, depth - 1) for _ in range(rnd.randint(0, 3))]
    return {gen_str(rnd): gen(rnd, depth - 1) for _ in range(rnd.randint(0, 3))}


def classify(v, exc):
    """Mechanism of a failure, decided from the witness value itself."""
    if (isinstance(v, str) and v[:1] in ("[", "{", '"') and isinstance(exc, ValueError)):
        try:
            json.loads(v)
        except ValueError:
            return "format-raises-on-nonjson-string-starting-with-bracket-or-quote"
    return "unclassified"


def run_case(ctx, v):
    ctx.ev()
    try:
        text = format_tag_value(v)
    except Exception as e:
        ctx.violation(classify(v, e), "format_tag_value(%r) raised %r" % (v, e), {"value": v})
        return
    ctx.count("formatted")
    try:
        back = parse_tag_value(text)
    except Exception as e:
        ctx.violation("parse-raises", "parse_tag_value(%r) raised %r" % (text, e), {"value": v, "text": text})
        return
    ctx.count("reparsed")
    if canon(back) != canon(v):
        ctx.violation("roundtrip-differs", "value %r displayed as %r parses to %r" % (v, text, back),
                      {"value": v, "text": text})
    if isinstance(v, str):
        ctx.count("strings_shown_bare" if text == v else "strings_shown_quoted")
    if not isinstance(v, str) or text != v or isinstance(v, (list, dict)):
        ctx.nontrivial(canon(v))


def shard(ctx, n, sub):
    rnd = random.Random("%s-%s-c34" % (ctx.seed, sub))
    if sub == 0:
        for a in STARTS:
            for b in BODIES:
                run_case(ctx, a + b)
                run_case(ctx, b + a)
    for i in range(n):
        v = gen(rnd)
        run_case(ctx, v)
        if i < 4:
            ctx.sample({"value": v, "display": _safe(v)})


def _safe(v):
    try:
        return format_tag_value(v)
    except Exception as e:
        return "raised %r" % (e,)


def main(ctx):
    n = ctx.pick(1500, 150000)
    ctx.shards("shard", [{"n": n, "sub": s} for s in range(16)])
    ctx.require("reparsed", 5000)
    ctx.require("strings_shown_quoted", 100)
    ctx.require("strings_shown_bare", 100)


def replay(ctx, witness):
    run_case(ctx, witness["value"])
