#!/bin/sh
# Offline setup: third-party helpers go beside the harness (git-ignored), nothing is fetched.
set -e
cd "$(dirname "$0")"
if [ ! -d .deps/icontract ]; then
  /venv/bin/pip install --quiet --no-index --find-links /opt/veriftools/wheels --target .deps icontract >/dev/null 2>&1 || \
  /venv/bin/pip install --no-index --find-links /opt/veriftools/wheels --target .deps icontract
fi
/venv/bin/python -m compileall -q vlib >/dev/null
echo "setup ok"
