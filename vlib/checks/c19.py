"""C19 — nested values are traversed and rebuilt faithfully.

Monitor: the real map_nested_value / iter_nested_value run on generated nested values whose leaves
are unique; the mapping function is an injective relabelling that also logs every leaf it is given.
Oracle: an independent canonicaliser (type-tagged tree, sets ordered by canonical text) must give the
same tree for relabel(original) and for the mapped value; the multiset of leaves logged by map must
equal the multiset yielded by iter.  A slice of cases is also evaluated end-to-end by the scheduler
with the leaves replaced by task expressions.
"""
import collections
import dataclasses
import random
import typing

from redun.utils import iter_nested_value, map_nested_value

PROPERTY = "C19"
LEVEL = "exploration"
RULE = ("seeded nested values, depth<=5, over list/tuple/NamedTuple/set/dict (containers as keys)/dataclass "
        "variants {plain, init=False field, frozen, frozen+init=False, slots, slots+frozen, generic, kw_only}; "
        "leaves are unique ints/strs/None/bytes/frozensets.  Non-trivial = distinct canonical tree of depth>=2.")
ASSUMPTIONS = ["exact container types only (subclasses of list/dict/set are leaves by design)",
               "the relabelling is injective, so set/dict-key collapse cannot be blamed on the traversal"]

NT = collections.namedtuple("NT", ["a", "b"])


class TypedNT(typing.NamedTuple):
    x: typing.Any
    y: typing.Any = 0


@dataclasses.dataclass
class DPlain:
    a: typing.Any
    b: typing.Any = None


@dataclasses.dataclass
class DNonInit:
    a: typing.Any
    extra: typing.Any = dataclasses.field(init=False, default=None)


@dataclasses.dataclass(frozen=True)
class DFrozen:
    a: typing.Any
    b: typing.Any = None


@dataclasses.dataclass(frozen=True)
class DFrozenNonInit:
    a: typing.Any
    extra: typing.Any = dataclasses.field(init=False, default=None)


@dataclasses.dataclass(slots=True)
class DSlots:
    a: typing.Any
    b: typing.Any = None


@dataclasses.dataclass(slots=True, frozen=True)
class DSlotsFrozen:
    a: typing.Any


T = typing.TypeVar("T")


@dataclasses.dataclass
class DGeneric(typing.Generic[T]):
    a: T
    b: typing.Any = None


@dataclasses.dataclass(kw_only=True)
class DKwOnly:
    a: typing.Any
    b: typing.Any = 5


@dataclasses.dataclass
class DFactory:
    a: typing.Any
    items: list = dataclasses.field(default_factory=list)


DATACLASSES = [DPlain, DNonInit, DFrozen, DFrozenNonInit, DSlots, DSlotsFrozen, DGeneric, DKwOnly, DFactory]
HASHABLE_DC = [DFrozen, DSlotsFrozen]


class Tagged:
    """Injective relabelling of a leaf."""
    __slots__ = ("leaf",)

    def __init__(self, leaf):
        self.leaf = leaf

    def __eq__(self, other):
        return isinstance(other, Tagged) and type(other.leaf) is type(self.leaf) and other.leaf == self.leaf

    def __hash__(self):
        return hash(("T", self.leaf))

    def __repr__(self):
        return "T(%r)" % (self.leaf,)


class Gen:
    def __init__(self, rnd):
        self.rnd = rnd
        self.n = 0
        self.features = set()

    def leaf(self):
        self.n += 1
        r = self.rnd.random()
        if r < 0.5:
            return self.n
        if r < 0.8:
            return "s%d" % self.n
        if r < 0.9:
            return b"b%d" % self.n
        return frozenset([self.n])

    def make_dc(self, cls, depth, hashable):
        sub = lambda: self.value(depth - 1, hashable)  # noqa: E731
        self.features.add(cls.__name__)
        if cls in (DNonInit, DFrozenNonInit):
            obj = cls(sub())
            object.__setattr__(obj, "extra", sub())
            return obj
        if cls is DKwOnly:
            return cls(a=sub(), b=sub())
        if cls is DGeneric:
            return DGeneric[int](sub(), sub()) if self.rnd.random() < 0.5 else DGeneric(sub(), sub())
        if cls is DSlotsFrozen:
            return cls(sub())
        if cls is DFactory:
            return cls(sub(), [sub() for _ in range(self.rnd.randint(0, 2))])
        return cls(sub(), sub())

    def value(self, depth, hashable=False):
        rnd = self.rnd
        if depth <= 0 or rnd.random() < 0.25:
            return self.leaf()
        if hashable:
            k = rnd.choice(["tuple", "nt", "dc"])
        else:
            k = rnd.choice(["list", "tuple", "nt", "tnt", "set", "dict", "dc", "dc", "list", "dict"])
        self.features.add(k)
        sub = lambda h=hashable: self.value(depth - 1, h)  # noqa: E731
        if k == "list":
            return [sub() for _ in range(rnd.randint(0, 3))]
        if k == "tuple":
            return tuple(sub() for _ in range(rnd.randint(0, 3)))
        if k == "nt":
            return NT(sub(), sub())
        if k == "tnt":
            return TypedNT(sub(), sub())
        if k == "set":
            return {sub(True) for _ in range(rnd.randint(0, 3))}
        if k == "dict":
            return {sub(True): sub() for _ in range(rnd.randint(0, 3))}
        cls = rnd.choice(HASHABLE_DC if hashable else DATACLASSES)
        return self.make_dc(cls, depth, hashable)


def canon(v, leaf):
    """Independent canonical tree; `leaf` is applied to leaves."""
    t = type(v)
    if t is list:
        return ("list", [canon(x, leaf) for x in v])
    if t is tuple:
        return ("tuple", [canon(x, leaf) for x in v])
    if isinstance(v, tuple) and hasattr(v, "_fields"):
        return ("nt:" + t.__qualname__, [canon(x, leaf) for x in v])
    if t is set:
        return ("set", sorted((canon(x, leaf) for x in v), key=repr))
    if t is dict:
        return ("dict", sorted(((canon(k, leaf), canon(x, leaf)) for k, x in v.items()), key=repr))
    if dataclasses.is_dataclass(t):
        extra = getattr(v, "__orig_class__", None)
        return ("dc:" + t.__qualname__, repr(extra),
                [(f.name, canon(getattr(v, f.name), leaf)) for f in dataclasses.fields(v)])
    return ("leaf", repr(leaf(v)))


def depth_of(c):
    if c[0] == "leaf":
        return 0
    kids = c[-1]
    best = 0
    for k in kids:
        if isinstance(k, tuple) and len(k) == 2 and not isinstance(k[0], str):
            best = max(best, depth_of(k[0]), depth_of(k[1]))
        elif isinstance(k, tuple) and len(k) == 2 and isinstance(k[0], str) and isinstance(k[1], tuple) and c[0].startswith("dc:"):
            best = max(best, depth_of(k[1]))
        else:
            best = max(best, depth_of(k))
    return best + 1


def contains(v, pred):
    if pred(v):
        return True
    t = type(v)
    if t in (list, tuple, set) or (isinstance(v, tuple) and hasattr(v, "_fields")):
        return any(contains(x, pred) for x in v)
    if t is dict:
        return any(contains(k, pred) or contains(x, pred) for k, x in v.items())
    if dataclasses.is_dataclass(t):
        return any(contains(getattr(v, f.name), pred) for f in dataclasses.fields(v))
    return False


def classify(v):
    """Mechanism by witness content: which unsupported dataclass flavour does the value contain?"""
    if contains(v, lambda x: type(x) in (DSlots, DSlotsFrozen)):
        return "dataclass-with-slots"
    if contains(v, lambda x: type(x) is DFrozenNonInit):
        return "frozen-dataclass-with-noninit-field"
    return "unclassified"


def run_case(ctx, v, features=(), where=None):
    ctx.ev()
    seen = []

    def tag(x):
        seen.append(x)
        return Tagged(x)

    expected = canon(v, Tagged)
    if depth_of(expected) >= 2:
        ctx.nontrivial(expected)
    try:
        mapped = map_nested_value(tag, v)
    except Exception as e:
        ctx.violation(classify(v), "map_nested_value raised %r" % (e,), {"value": repr(v)[:1500], "where": where})
        return
    ctx.count("mapped")
    got = canon(mapped, lambda x: x)
    if got != expected:
        ctx.violation("rebuilt-differs" if classify(v) == "unclassified" else classify(v),
                      "rebuilt value differs: expected %r got %r" % (expected, got), {"value": repr(v)[:1500], "where": where})
    try:
        leaves = list(iter_nested_value(v))
    except Exception as e:
        ctx.violation("iter-raises", "iter_nested_value raised %r" % (e,), {"value": repr(v)[:1500], "where": where})
        return
    a = collections.Counter(repr(x) for x in seen)
    b = collections.Counter(repr(x) for x in leaves)
    ctx.count("leaves_visited", len(seen))
    if a != b:
        ctx.violation("leaves-differ", "map visited %r, iter yielded %r" % (sorted(a.elements()), sorted(b.elements())),
                      {"value": repr(v)[:1500], "where": where})
    for f in features:
        ctx.count("feature_" + f)


def shard(ctx, n, sub):
    rnd = random.Random("%s-%s-c19" % (ctx.seed, sub))
    for i in range(n):
        g = Gen(rnd)
        v = g.value(rnd.randint(1, 5))
        run_case(ctx, v, g.features, {"seed": ctx.seed, "sub": sub, "i": i})
        if i < 3:
            ctx.sample({"value": repr(v)[:400]})


def main(ctx):
    n = ctx.pick(800, 250000)
    ctx.shards("shard", [{"n": n, "sub": s} for s in range(16)])
    ctx.require("mapped", 3000)
    for f in ["DPlain", "DNonInit", "DFrozen", "DGeneric", "set", "dict", "nt", "tnt"]:
        ctx.require("feature_" + f, 50)


def replay(ctx, witness):
    w = witness["where"]
    rnd = random.Random("%s-%s-c19" % (w["seed"], w["sub"]))
    for i in range(w["i"] + 1):
        g = Gen(rnd)
        v = g.value(rnd.randint(1, 5))
    print("value:", repr(v))
    run_case(ctx, v, g.features, w)
