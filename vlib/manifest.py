"""Generates /verif/MANIFEST.json from the table below (python -m vlib.manifest)."""
import json
import os

from vlib import ROOT

BASELINE_OFF = ("cd /repo && env -u REDUN_VERIF /venv/bin/python -m pytest -ra -q -p no:cacheprovider "
                "--timeout=900 --continue-on-collection-errors")

ENGINES = [
    {"name": "core", "path": "vlib/core.py", "serves_properties": [],
     "kind_free_text": "check runner: subprocess shards, monitor counters, three-valued verdicts, "
                       "mechanism-keyed known findings, evidence and replay files"},
    {"name": "wf+ctl", "path": "vlib/wf.py vlib/wf_tasks.py vlib/ctl.py vlib/engine.py vlib/sched_explore.py",
     "serves_properties": ["C01", "C05", "C06", "C07", "C08", "C09", "C12", "C20", "C21", "C26", "C27"],
     "kind_free_text": "program generator + set-valued reference interpreter + schedule controller that owns the "
                       "executor and the scheduler event queue (DFS / random / PCT / extreme choosers)"},
    {"name": "hist", "path": "vlib/hist.py vlib/dbaudit.py", "serves_properties": ["C02", "C23", "C28", "C33"],
     "kind_free_text": "editable task family + execution histories with a differential (empty backend) oracle; raw-SQL "
                       "database auditor"},
    {"name": "hist+faults", "path": "vlib/hist.py vlib/faults.py vlib/dbaudit.py", "serves_properties": ["C03", "C22"],
     "kind_free_text": "commit-boundary process-death injection and statement-level transient-error injection through "
                       "SQLAlchemy events, enumerated over every point of a workload"},
    {"name": "models", "path": "vlib/checks", "serves_properties": ["C13", "C14", "C15", "C17", "C18", "C19", "C24", "C25", "C37"],
     "kind_free_text": "offline checkers and relation monitors over the real pure functions"},
    {"name": "threads", "path": "vlib/thr.py", "serves_properties": ["C10", "C11"],
     "kind_free_text": "thread interleaving explorer: sys.monitoring LINE events on selected code objects park a chosen "
                       "thread at a chosen line (systematic single preemption) or inject seeded yields (stress)"},
    {"name": "io", "path": "vlib/checks", "serves_properties": ["C04", "C16", "C29", "C30", "C31", "C32", "C34", "C35", "C36"],
     "kind_free_text": "round-trip / cross-process differential monitors"},
]

# id -> (engine, category, technique, level text, level note, design ref)
CHECKS = {}


def reg(pid, engine, technique, text, note, category="exploration"):
    CHECKS[pid] = (engine, category, technique, text, note)


reg("C13", "models", "offline trace checker over instrumented callbacks on the real Promise",
    "Every op sequence up to a length bound (exhaustive) plus seeded random sequences to length 25 is run "
    "on the real Promise with instrumented callbacks; trace invariants (settle-once, exactly-once "
    "notification, registration order, chained outcome, all/wait aggregates) are decided on the recorded "
    "event log with a state snapshot at every event.",
    "Single-threaded use; explicit settles target base promises only; re-entrant registration order is "
    "recorded, not constrained.")
reg("C14", "models", "injectivity table + independent strict decoder over observed (structure, bytes) pairs",
    "Grammar-generated structures and adversarial neighbours are encoded by the real bencode; a bytes->normal "
    "form table detects collisions, an independent strict decoder must invert every encoding, redun's "
    "bdecode must round-trip, dict order permutations must not matter, non-encodable leaves must raise.",
    "Finite acyclic structures; generator classes listed in the evidence rule.")
reg("C34", "io", "round-trip monitor on format_tag_value/parse_tag_value",
    "Seeded JSON values biased to the risky string classes are formatted and re-parsed by the real "
    "functions; type-exact equality is the oracle.", "JSON-compatible values only.")
reg("C35", "io", "round-trip monitor on Config.get_config_dict / Config(config_dict=)",
    "Generated INI texts are loaded, converted to the two-level dict and back by the real Config; the "
    "section tree and every effective value are compared, and replace_config_dir is checked value by value.",
    "Effective value = section[key]; configs whose own interpolation fails are excluded.")

SCHED_NOTE = ("Trusted: the harness-owned executor and event queue reproduce every real linearisation of completion "
              "events (the scheduler is a single-threaded event loop; workers interact only through queue puts). "
              "Held only for the generated program classes and schedule budgets reported in the evidence.")
reg("C01", "wf+ctl", "differential monitor: real Scheduler (controlled schedules + real thread/process/async pools) "
    "against a set-valued reference interpreter",
    "Generated workflow programs over all listed forms are evaluated by the real scheduler under several controlled "
    "completion orders and on the unmodified LocalExecutor pools (thread, process via forkserver and fork, async "
    "twins); the returned value or raised error must be one the documented reduction rules allow.",
    SCHED_NOTE + " Reference interpreter vlib/wf.py is trusted to encode the documented rules.")
reg("C06", "wf+ctl", "schedule exploration (DFS-exhaustive for small programs, random/PCT beyond) with submit/settle "
    "trace monitors", "Programs with duplicates created before/during/after the first call run under exhaustive or "
    "sampled completion orders; at most one SUBMIT per (task hash, args hash, context), identical settlement of all "
    "jobs of a call, one Job per (parent, expression hash).", SCHED_NOTE)
reg("C08", "wf+ctl", "schedule exploration with a shadow resource account at the executor boundary",
    "Held units are accounted at SUBMIT/REPORT in the harness and compared with the cap after every submission; "
    "scheduler accounting is sampled at every queue get (never negative, zero after a successful run).", SCHED_NOTE)
reg("C09", "wf+ctl", "schedule exploration with a dead-quiescent-state detector",
    "Liveness restated as a state property: the controlled loop must never reach 'queue empty, nothing in flight, "
    "workflow pending' (the state in which the real loop blocks forever); on return every job is settled.", SCHED_NOTE)
reg("C15", "models", "pairwise key monitor on the real scheduler path against an independent call-identity model",
    "eval_hash is captured at SUBMIT for generated signatures/calls and compared pairwise with the verdict of "
    "inspect.signature.bind+apply_defaults minus config/JobInfo; pre-image type tags are observed by wrapping bencode "
    "during scheduler workloads.", "Positional-vs-keyword passing is not required to collide.")
reg("C16", "io", "cross-process differential on TypeRegistry.get_hash",
    "The same generated value is rebuilt and hashed in 4 interpreter processes (PYTHONHASHSEED 0,1,2,random) and 3 "
    "set insertion orders; all hashes of one value must agree.", "Values are rebuilt by the same code in each process.")
reg("C17", "models", "hash relation monitor over generated task definitions and single mutations",
    "Real @task/wraps_task/.options/.update_context/.partial code paths on generated source text (linecache); each "
    "mutation kind must / must not change Task.hash, also when observed through call-time overrides.",
    "hash_includes items are hashable.")
reg("C18", "models", "hash separation + pickle round-trip monitor over generated expressions",
    "Every single-field variant of a generated expression must hash differently; redun's own pickle round trip must "
    "preserve hash, arguments, options and reset bookkeeping; an end-to-end run checks that option-only variants are "
    "not merged.", "Equal hashes for equal fields only required for identically constructed expressions.")
reg("C19", "models", "structural monitor on map_nested_value / iter_nested_value with an injective relabelling",
    "Generated nested values over all supported containers and dataclass flavours are mapped by the real function; an "
    "independent canonicaliser compares types/shape/leaves, and the leaves logged by map equal those yielded by iter.",
    "Exact container types only.")
reg("C24", "models", "history + executable set-of-pairs model over the real backend tag operations and the CLI",
    "All bounded histories (exhaustive to a length bound, random to length 30) of add/update/rm are applied to the real "
    "backend as the tag commands do; current tags are compared with the model after every operation, the edit graph "
    "is audited for cycles and orphaned superseded tags; a slice runs through RedunClient.execute on a file database.",
    "Current tags compared as sets of pairs.")
reg("C37", "models", "invariant at a hook on TaskRegistry.add/rename + model-based define/redefine/wrap driver",
    "The registry invariant is asserted after every registry mutation in exhaustive and random op sequences on a "
    "private registry (real @task / wraps_task) and on the global registry during scheduler workloads.",
    "Invariant stated on the hashes stored on held Task objects.")
HIST_NOTE = ("Differential oracle: the same program on an empty backend (fresh Scheduler per execution, as the CLI "
             "does). SQLite only. Held for the generated histories reported in the evidence.")
reg("C02", "hist", "history + differential oracle (shared backend vs empty backend) with invocation trace",
    "Histories of executions over an editable task family with body edits, version bumps, reverts, argument changes "
    "and input-file rewrites; each execution's outcome is compared with an uncached run; invocation counts show that "
    "replay and re-execution both occurred.", HIST_NOTE)
reg("C03", "hist+faults", "fault enumeration (death at every commit, transient error at every statement, transfer) "
    "followed by subtree edits and shallow reruns, differential oracle",
    "Every commit boundary and SQL statement of the recording run of shallow-cached call trees is turned into a fault, "
    "and every transfer path is exercised; afterwards each subtree task is edited and the rerun compared with the "
    "empty-backend result.", HIST_NOTE, category="fault_enumeration")
reg("C05", "wf+ctl", "differential monitor against the reference interpreter's context model, counterfactual "
    "classification of findings", "Calls with equal arguments under different effective contexts, sequential and "
    "concurrent, within and across executions, full and shallow; delivered values must be what each call computes "
    "under its own context.", SCHED_NOTE)
reg("C12", "wf+ctl", "trace + database monitors on failing programs over repeated executions",
    "The propagated exception must be one the reference allows and must be the object raised by a task executed in "
    "that very execution (never a replayed ErrorValue); the failing job and all ancestors must display FAILED.",
    SCHED_NOTE)
reg("C22", "hist+faults", "fault enumeration: process death at every commit (before/after) and a transient "
    "OperationalError at every SQL statement, with referential audit, recovery runs and database comparison",
    "Each fault point of each workload is injected in-process (validated against real os._exit subprocesses); the file "
    "is audited, recovery runs (same / edited program) are compared with the empty-backend result, and retried "
    "operations must leave the database identical to the fault-free one.", HIST_NOTE, category="fault_enumeration")
reg("C23", "hist", "row-level differential between source and destination repositories over real transfers",
    "Generated repositories are transferred by _sync_records and by export/JSON/import for several root selections; "
    "rows on the closure of the roots are compared, idempotence and reverse transfer are checked, and the cache "
    "clause is decided behaviourally after task edits.", HIST_NOTE)
reg("C26", "wf+ctl", "differential monitor against an independent deep-merge/dotted-path context model",
    "Generated job trees read the context at every job (get_context and expression-valued defaults) under nested "
    "update_context overrides and root contexts from config string, context_file and run(context=).", SCHED_NOTE)
reg("C27", "wf+ctl", "options captured at SUBMIT compared with an independent precedence model",
    "Generated job trees with options at definition, call, export and with_export_options level, expression-valued "
    "options, prov=False subtrees and cache=False runs; job.get_options() at the executor boundary must equal the model.",
    SCHED_NOTE)
reg("C07", "wf+ctl", "cross-run comparison of results and recorded call graphs over schedules x limit configurations",
    "Every program (incl. handle-passing ones) runs on fresh backends under several completion orders and caps from "
    "effectively unlimited to fully serial; result, call-node hashes, recorded argument hashes, handle hashes and "
    "edges read back from the database must agree across all runs.", SCHED_NOTE)
reg("C28", "hist", "dry-run monitor at the executor boundary and inside task bodies, with the real run on a byte copy",
    "For generated backend histories the dry run must submit and invoke nothing; a completed dry run must return the "
    "real run's value and a stopped one must be followed by a real run that invokes a task.", HIST_NOTE)
reg("C20", "wf+ctl", "database auditor driven by the job tree observed at the job boundary",
    "After every execution (successful, failed, cached replay) all Job/CallNode/CallEdge/Execution/Value/Subvalue/Tag "
    "rows are read back: Merkle hashes are recomputed from observed children, edges and parent links mirror the "
    "observed tree, values deserialise to their keys, tags sit on the intended entities, prov=False jobs leave no rows.",
    SCHED_NOTE)
reg("C21", "wf+ctl", "argument/argument_result rows compared with received values and a required/allowed upstream model",
    "Dataflow programs route uniquely identifiable producer calls into sinks through 13 forms; recorded argument "
    "values must equal received values (defaults as keywords) and upstream links must satisfy required <= recorded <= "
    "allowed.", SCHED_NOTE)
reg("C33", "hist", "set comparison of status-filter results with displayed statuses on generated databases",
    "Databases with done, cached, failed, CSE-failed, replayed-failure and (by injected process death) running "
    "jobs; each status filter for jobs and executions must return exactly the rows displayed with that status.",
    HIST_NOTE)
reg("C04", "io", "history monitor with an independent per-class validity model and an invocation trace",
    "For each file value class a producer's cached result is kept across external deletions, truncations, rewrites "
    "(size / mtime / same bytes), recreations and member changes; the producer must re-run whenever the value is no "
    "longer valid, run() must never raise, and the consumer must see the producer's current output.",
    "Local filesystem; Handle validity is covered by C25.")
reg("C25", "models", "history + reference lineage model on the real backend, plus workflow-level edit/revert histories",
    "Bounded advance/rollback histories (exhaustive to a length bound, random beyond) are applied to the real backend "
    "and every state's validity compared with the lineage model after each step; chains of handle-writing tasks are "
    "re-run after edits and reverts, and steps holding rolled-back states must execute again.",
    "rollback traverses edges whose parent is currently valid (documented behaviour); see ASSUMPTIONS in the evidence.")
reg("C30", "io", "op-sequence monitor on real files comparing object hashes with freshly computed ones",
    "Sequences of redun and external file operations per value class; after redun operations the object's hash must "
    "be fresh, is_valid() must agree with hash equality, content-hashed values must follow bytes, missing paths hash "
    "deterministically.", "Local filesystem only.")
reg("C29", "io", "execution monitor on real script runs (cat-as-interpreter, markers, staging files on disk)",
    "Generated command texts run through exec_script, the heredoc wrapper and script_task with /bin/cat as the "
    "interpreter so that stdout is the exact text executed; script() with generated staging structures is checked for "
    "staged inputs, unstaged outputs and result shape.", "Local executor; /bin/sh and /bin/cat present.")
reg("C31", "io", "round-trip monitor on record_value/get_value under generated storage configurations",
    "Values are recorded with the bytes inline, offloaded to a value store or to a FileCache file under generated size "
    "thresholds, read back, recorded again, and read after the offloaded bytes were deleted.", "SQLite file backend.")
reg("C32", "io", "differential monitor: real oneshot entry point over scratch files vs local call",
    "The real protocol functions and `redun oneshot` (in-process, and a real subprocess for a slice) are run for single "
    "and array jobs under every index variable; outcomes, per-element isolation, job-name round trips and reuniting on "
    "fake listings are compared with local execution / the generated listing.", "Same code on both sides; local scratch.")
reg("C36", "io", "before/after row comparison over the real migration chain from every historical schema version",
    "Databases created at each of the historical schema versions by redun's own migrate() are populated through "
    "schema reflection, upgraded to latest, compared on shared columns (multiset inclusion, timestamps as instants), "
    "loaded by the library and used for a recording and a replaying run.", "SQLite only, TZ=UTC.")
reg("C38", "wf+ctl", "differential monitor on real sub-schedulers with database and cache-lookup observation",
    "Generated sub-workflows run through subrun() on the unmodified local executors with new_execution, cache, "
    "cache_scope and check_valid varied over repeated executions on one file database; outcomes are compared with the "
    "reference interpreter, job ancestry / execution ids are read from the database, and check_cache is wrapped to "
    "see which cache result kind is used for the subrun task.", "Local executors; shared SQLite file via forwarded config.")
reg("C10", "threads", "history monitor on the five real executor classes with in-process API fakes under sys.monitoring-driven preemption",
    "The real Docker / AWS Batch / Kubernetes / GCP Batch / AWS Glue executors run with their real monitor, arrayer and "
    "submission threads against a fake API that completes every job after a fixed number of polls; a recording scheduler "
    "notes done_job / reject_job.  One preemption is placed at every executed statement line of the monitor-side and "
    "submit-side methods while the other side acts, plus chained-submission stress with seeded yields.  Oracle: each "
    "submitted job reported exactly once, no reject_job(None, ...); a lost job is decided structurally (submit returned, job "
    "still pending, and either no monitor thread alive, or the job sits in a stage - arrayer, Glue queue - whose consumer "
    "thread is dead while the monitor completed 60 further polls).",
    "Line-granular preemption; API failures not injected; jobs are not terminal before registration finished.")

reg("C11", "threads", "history monitor on the real JobArrayer and its monitor thread under sys.monitoring-driven preemption",
    "The real JobArrayer runs with its real monitor thread; jobs carry unique ids and the submit / on_error callbacks "
    "record a hand-off history.  One preemption is placed at every statement line (1st..3rd arrival) of the monitor-side "
    "methods (adding thread acts while the monitor is parked) and of add_job (monitor polls while the adder is parked), "
    "plus seeded yield-injection stress; the history is checked for exactly-once hand-off, homogeneous and size-legal "
    "batches, a silent on_error and num_pending == jobs held at quiescence.",
    "Line-granular preemption (CPython switches between bytecodes; intra-line windows only via stress). Single add_job caller.")


def build():
    checks = []
    for pid in sorted(CHECKS):
        engine, category, technique, text, note = CHECKS[pid]
        checks.append({
            "property_id": pid,
            "quick_cmd": "./check %s --tier quick" % pid,
            "thorough_cmd": "./check %s --tier thorough" % pid,
            "evidence_file": "/verif/evidence/%s.json" % pid,
            "replay_cmd_template": "./check %s --replay {path}" % pid,
            "engine": engine,
            "level_claimed": {"category": category, "text": text, "design_ref": "DESIGN.md §2 %s" % pid},
            "level_note": note,
            "technique": "runtime monitoring: " + technique,
        })
    with open(os.path.join(ROOT, "properties.jsonl")) as f:
        all_ids = [json.loads(l)["id"] for l in f if l.strip()]
    na = [{"property_id": p, "reason": NOT_APPLICABLE.get(p, "check not built yet in this revision")}
          for p in all_ids if p not in CHECKS]
    return {
        "version": 1,
        "setup_cmd": "./setup.sh",
        "hooks": {
            "guard": "REDUN_VERIF",
            "enable": "no source hooks: every monitor is attached from the harness at import time "
                      "(checks import /repo's working tree through the editable install)",
            "baseline_off_cmd": BASELINE_OFF,
            "source_commits": [],
            "add_only": True,
        },
        "engines": ENGINES,
        "checks": checks,
        "not_applicable": na,
        "notes": "Runtime monitoring only; see DESIGN.md. Exit 0 held / 1 violation / 2 inconclusive.",
    }


NOT_APPLICABLE = {}

if __name__ == "__main__":
    m = build()
    with open(os.path.join(ROOT, "MANIFEST.json"), "w") as f:
        json.dump(m, f, indent=1)
        f.write("\n")
    print("wrote MANIFEST.json with %d checks, %d not claimed" % (len(m["checks"]), len(m["not_applicable"])))
