"""Subprocess entry point for one shard of a check."""
import importlib
import json
import os
import sys
import threading

from vlib import core


def main():
    inp, out = sys.argv[1], sys.argv[2]
    with open(inp) as f:
        spec = json.load(f)
    mod = importlib.import_module("vlib.checks.%s" % spec["prop"].lower())
    ctx = core.Ctx(spec["prop"], spec["tier"], spec["seed"])
    getattr(mod, spec["func"])(ctx, **spec["args"])
    with open(out, "w") as f:
        json.dump(ctx.dump(), f, default=repr)
        f.flush()
        os.fsync(f.fileno())
    # checks on threaded code may leave non-daemon threads of the code under test behind
    if any(t is not threading.main_thread() and t.is_alive() and not t.daemon for t in threading.enumerate()):
        os._exit(0)


if __name__ == "__main__":
    main()
