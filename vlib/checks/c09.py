"""C09 — executions terminate with every job settled.  Monitors in vlib/sched_explore.py; schedules by vlib/ctl.py."""
import random

from vlib import engine, sched_explore as sx

PROPERTY = "C09"
LEVEL = "exploration"
RULE = ("programs with repeated calls (same parent / sequential / nested / cousins / map / catch_all / generated), "
        "with failing calls, under random resource-limit configurations (list and dict demands over r1,r2 and an "
        "unconfigured r3; demand <= cap); every program runs under DFS over completion orders when it has <=5 "
        "executor jobs (budgeted) plus extreme/random/PCT schedules.  Non-trivial = distinct (program, limits) "
        "with >=2 executor jobs; distinct interleavings are counted by schedule signature.")
ASSUMPTIONS = ["the only nondeterminism of an execution is the order in which completion events enter the "
               "scheduler's queue relative to its own puts (single-threaded event loop)",
               "task functions terminate; no job demands more than its cap"]


def shard(ctx, n, sub, n_random, dfs_budget, with_limits):
    rnd = random.Random("%s-%s-c09" % (ctx.seed, sub))
    holder = [engine.new_backend()]
    stats = {}
    for i in range(n):
        ast, shape = sx.dup_program(rnd, depth=rnd.choice([1, 2, 3]))
        caps_cfg = None
        if with_limits and rnd.random() < with_limits:
            caps, caps_cfg = sx.gen_caps(rnd)
            ast = sx.assign_limits(ast, rnd, caps)
        ctx.ev()
        ctx.count("shape_" + shape)
        before = ctx.counters.get("submits", 0) + ctx.counters.get("schedules_run", 0)
        # a share of the programs runs in the scheduler's normal cache mode (fresh backend per run, per-call cache
        # scopes honoured) with a smaller schedule budget; the rest with run(cache=False) on a shared backend
        normal = shape == "optout" or rnd.random() < 0.2
        sigs = sx.explore_program(ctx, "C09", ast, rnd, caps_cfg, max(3, min(8, n_random // 2)) if normal else n_random,
                                  max(40, min(150, dfs_budget // 3)) if normal else dfs_budget, stats, holder, cache=normal)
        if len(sigs) >= 2:
            ctx.nontrivial([ast, caps_cfg])
        if i < 2:
            ctx.sample({"ast": ast, "limits": caps_cfg, "distinct_schedules": len(sigs)})
    for k, v in stats.items():
        ctx.extra[k] = max(ctx.extra.get(k, 0), v) if k == "max_held" else ctx.extra.get(k, 0) + v


def main(ctx):
    wl = {"C06": 0.4, "C08": 1.0, "C09": 0.85}["C09"]
    if ctx.is_quick():
        ctx.shards("shard", [{"n": 6, "sub": s, "n_random": 10, "dfs_budget": 120, "with_limits": wl}
                             for s in range(16)], timeout=600)
    else:
        ctx.shards("shard", [{"n": 60, "sub": s, "n_random": 40, "dfs_budget": 2000, "with_limits": wl}
                             for s in range(16)], timeout=3400)
    ctx.require("terminated_runs", 300)
    ctx.require("returns_all_settled_checked", 100)
    ctx.require("dfs_completed_programs", 3)


def replay(ctx, witness):
    sx.replay_run(ctx, "C09", witness)
