"""Editable task family 'vh' and execution histories (DESIGN.md §1.3).

Each editable task has body variants that compute *different* functions and is (re)registered with
source=<variant text> (unversioned) or version=<n> (versioned), which changes Task.hash exactly as a
code edit would.  Bodies look tasks up by name at call time, so an edit of a callee is seen by callers
without redefining them.
"""
import logging
import os

logging.disable(logging.CRITICAL)

from redun import File, Scheduler, catch, task  # noqa: E402

from vlib import ctl, engine, trace  # noqa: E402
from vlib.wf import canon  # noqa: E402

T = {}       # name -> current redun Task
STATE = {}   # name -> {"variant": int, "versioned": bool, "options": dict}


class HErr(Exception):
    pass


class HErr2(Exception):
    pass


# ---- bodies: BODY[name](variant) -> python function ---------------------------------------------
def _leafA(v):
    def leafA(x):
        trace.enter("leafA", x)
        return x + [1, 2, 3][v]
    return leafA


def _leafB(v):
    def leafB(x, scale=("unit", 31337)):
        # `scale` is a defaulted parameter: recorded as a keyword argument whose value is new to the database
        trace.enter("leafB", x)
        return x * [2, 3, 5][v]
    return leafB


def _plus(v):
    def plus(a, b):
        trace.enter("plus", a, b)
        return a + (b - 40000) + [0, 1000, 2000][v]
    return plus


def _mid(v):
    def mid(x):
        trace.enter("mid", x)
        return T["plus"](T["leafA"](x), b=[0, 10, 20][v] + 40000)   # keyword argument
    return mid


def _top(v):
    def top(x, y):
        trace.enter("top", x, y)
        out = [T["mid"](x), T["leafB"](y)]
        if v >= 1:
            out.append(T["leafA"](y))
        if v >= 2:
            out.append("t2")
        return out
    return top


def _deep(v):
    def deep(x):
        trace.enter("deep", x)
        # child -> grandchild chain with a duplicate call
        return {"a": T["top"](x, x), "b": T["mid"](x), "v": [0, 7, 9][v]}
    return deep


def _shapes(v):
    def shapes(x):
        trace.enter("shapes", x)
        # results whose lazy parts sit inside every kind of nested value the scheduler evaluates: dataclass fields,
        # namedtuple fields, dict values, tuples, lists
        from vlib import wf_tasks as W
        return W.DC(T["leafA"](x), [W.NT(T["mid"](x), (T["leafB"](x), [0, 4, 8][v])), {"k": T["leafA"](x + 1)}])
    return shapes


def _maybe_fail(v):
    def maybe_fail(x):
        trace.enter("maybe_fail", x)
        if x % 3 == [0, 1, 2][v]:
            raise HErr("bad %d (variant %d)" % (x, v))
        return x
    return maybe_fail


def _recover(v):
    def recover(err):
        trace.enter("recover", str(err))
        if v == 2:
            raise HErr2("recover failed: %s" % err)
        return [-1, -2][v]
    return recover


def _guarded(v):
    def guarded(x):
        trace.enter("guarded", x)
        if v == 0:
            return catch(T["maybe_fail"](x), HErr, T["recover"])
        return [catch(T["maybe_fail"](x), HErr, T["recover"]), T["leafA"](x)]
    return guarded


def _failing_parent(v):
    def failing_parent(x):
        trace.enter("failing_parent", x)
        return [T["leafA"](x), T["maybe_fail"](x), T["leafB"](x)][: 3 - (v % 2)]
    return failing_parent


def _readf(v):
    def readf(f):
        trace.enter("readf", f.path)
        return f.read() + ["", "!", "?"][v]
    return readf


def _writef(v):
    def writef(path, content):
        trace.enter("writef", path, content)
        f = File(path)
        f.write(content + ["", "+", "++"][v])
        return f
    return writef


def _pipeline(v):
    def pipeline(path, content):
        trace.enter("pipeline", path, content)
        return [T["readf"](T["writef"](path, content)), [0, 1, 2][v]]
    return pipeline


def _cat2(v):
    def cat2(a, b):
        trace.enter("cat2", a, b)
        return "%s|%s%s" % (a, b, ["", "~", "~~"][v])
    return cat2


def _nestfile(v):
    def nestfile(path, x):
        trace.enter("nestfile", path, x)
        # a File built inside the body and nested as an argument of an argument of the returned call
        return T["cat2"](T["readf"](File(path)), [x, T["leafA"](x)][: 1 + (v % 2)])
    return nestfile


BODY = {"shapes": _shapes, "cat2": _cat2, "nestfile": _nestfile, "leafA": _leafA, "leafB": _leafB, "plus": _plus, "mid": _mid, "top": _top, "deep": _deep,
        "maybe_fail": _maybe_fail, "recover": _recover, "guarded": _guarded, "failing_parent": _failing_parent,
        "readf": _readf, "writef": _writef, "pipeline": _pipeline}
NVARIANTS = {"shapes": 3, "cat2": 3, "nestfile": 2, "leafA": 3, "leafB": 3, "plus": 3, "mid": 3, "top": 3, "deep": 3, "maybe_fail": 3, "recover": 3,
             "guarded": 2, "failing_parent": 2, "readf": 3, "writef": 3, "pipeline": 3}
# who can run beneath whom (for aiming subtree edits)
SUBTREE = {"shapes": ["leafA", "leafB", "mid", "plus"], "nestfile": ["cat2", "readf", "leafA"], "mid": ["leafA", "plus"], "top": ["mid", "leafA", "leafB", "plus"],
           "deep": ["top", "mid", "leafA", "leafB", "plus"], "guarded": ["maybe_fail", "recover", "leafA"],
           "failing_parent": ["leafA", "leafB", "maybe_fail"], "pipeline": ["readf", "writef"]}


def define(name, variant, versioned=None, options=None):
    """(Re)define an editable task: body and version always change together."""
    st = STATE.get(name, {"versioned": False, "options": {}})
    if versioned is not None:
        st["versioned"] = versioned
    if options is not None:
        st["options"] = options
    st["variant"] = variant
    STATE[name] = st
    fn = BODY[name](variant)
    fn.__module__ = __name__
    kwargs = dict(st["options"])
    if st["versioned"]:
        kwargs["version"] = "v%d" % variant
    t = task(name=name, namespace="vh", source="vh:%s:body-variant-%d" % (name, variant), **kwargs)(fn)
    T[name] = t
    return t


def reset(config=None):
    """config: name -> {"variant", "versioned", "options"}; unspecified tasks get variant 0."""
    STATE.clear()
    config = config or {}
    for name in BODY:
        c = config.get(name, {})
        define(name, c.get("variant", 0), c.get("versioned", False), c.get("options", {}))


reset()


# ---- running ---------------------------------------------------------------------------------------
def run(expr_fn, backend, chooser=None, cache=True, dryrun=False, limits=None):
    """expr_fn() builds a fresh expression (expressions carry per-run bookkeeping).  Returns
    (outcome key, raw outcome, invocations [(task, args)], controller)."""
    trace.reset()
    out, c, s = engine.run_controlled(expr_fn(), chooser or ctl.ExtremeChooser("eager_fifo"), backend=backend,
                                      cache=cache, dryrun=dryrun, limits=limits)
    return engine.outcome_key(out), out, trace.snapshot(), c


def fresh_result(expr_fn):
    """What an uncached run returns: the same program on an empty in-memory backend."""
    backend = engine.new_backend()
    key, out, calls, c = run(expr_fn, backend)
    try:
        backend.session.close()
        backend.engine.dispose()
    except Exception:
        pass
    return key, calls


def file_backend(path):
    return engine.new_backend(db_uri="sqlite:///" + path)


def close_backend(backend):
    try:
        backend.session.close()
    except Exception:
        pass
    try:
        backend.engine.dispose()
    except Exception:
        pass
