"""Importable types used by the C16 value generator (pickled by reference)."""
import dataclasses
import enum
import typing


@dataclasses.dataclass
class Point:
    x: typing.Any
    y: typing.Any = None


@dataclasses.dataclass(frozen=True)
class FrozenPoint:
    x: typing.Any
    y: typing.Any = None


class Color(enum.Enum):
    RED = 1
    GREEN = "green"


class Pair(typing.NamedTuple):
    a: typing.Any
    b: typing.Any
