import os, tempfile
from redun import Scheduler, task
from redun.config import Config
from redun.functools import seq

d = tempfile.mkdtemp()
def define(v):
    @task(name="leaf", namespace="t2", source="leaf-%d" % v)
    def leaf(x):
        return x + 100 * v
    @task(name="mid", namespace="t2", source="mid")
    def mid(x):
        return leaf(x)
    @task(name="a", namespace="t2", source="a")
    def a(x):
        return mid(x)
    @task(name="b", namespace="t2", source="b", check_valid="shallow")
    def b(x):
        return mid(x)
    @task(name="main", namespace="t2", source="main")
    def main():
        return seq([a(1), b(1)])      # b's mid(1) is answered from a's mid(1) (same execution)
    return main
def run(v):
    s = Scheduler(config=Config({"backend": {"db_uri": "sqlite:///" + os.path.join(d, "r.db")}}))
    s.load()
    return s.run(define(v)())
print(run(0))
print(run(1))
