"""C24 — tag history behaves like a key-value multiset.

History + executable model: add / update / rm as performed by the `redun tag` commands
(record_tags(new=True), record_tags(update=True), delete_tags) are driven on the real backend, and
after every operation the current tags of every entity (get_tags) are compared with a small set-of-pairs
model; the tag_edit graph must stay acyclic and every superseded tag must have a child edit.  A slice
of histories is driven through the real CLI (RedunClient.execute) against a file database.
"""
import itertools
import json
import os
import random
import shutil
import tempfile

from redun.backends.base import TagEntity
from redun.backends.db import Tag, TagEdit

from vlib import engine

PROPERTY = "C24"
LEVEL = "exploration"
RULE = ("all op sequences up to a length bound (then seeded random to length 30) over ops add / update / rm-pair / "
        "rm-key on 2 entities x 2 keys x 3 JSON values (multi-pair operations included); the model is checked after "
        "every operation.  Non-trivial = distinct history in which some tag was superseded (deleted or updated) and a "
        "later operation touched the same key.")
ASSUMPTIONS = ["current tags are compared as sets of (key, canonical JSON value) pairs per entity",
               "values are JSON values with distinct canonical texts"]

ENTITIES = ["ent-A", "ent-B"]
KEYS = ["k1", "k2"]
VALUES = [1, "v", [1, {"x": 2}]]


def cj(v):
    return json.dumps(v, sort_keys=True)


class Model:
    def __init__(self):
        self.tags = {}  # entity -> set of (key, canonical json)

    def add(self, e, pairs):
        self.tags.setdefault(e, set()).update((k, cj(v)) for k, v in pairs)

    def update(self, e, pairs):
        cur = self.tags.setdefault(e, set())
        keys = {k for k, _ in pairs}
        cur.difference_update({p for p in cur if p[0] in keys})
        cur.update((k, cj(v)) for k, v in pairs)

    def rm(self, e, pairs, keys):
        cur = self.tags.setdefault(e, set())
        cur.difference_update({(k, cj(v)) for k, v in pairs})
        cur.difference_update({p for p in cur if p[0] in keys})


def apply_backend(backend, op):
    kind, e = op[0], op[1]
    if kind == "add":
        backend.record_tags(TagEntity.Value, e, [tuple(p) for p in op[2]], new=True)
    elif kind == "update":
        backend.record_tags(TagEntity.Value, e, [tuple(p) for p in op[2]], update=True)
    elif kind == "rm":
        backend.delete_tags(e, [tuple(p) for p in op[2]], list(op[3]))


def apply_model(model, op):
    kind, e = op[0], op[1]
    if kind == "add":
        model.add(e, op[2])
    elif kind == "update":
        model.update(e, op[2])
    else:
        model.rm(e, op[2], op[3])


def observed(backend, entities):
    got = backend.get_tags(list(entities))
    out, multi = {}, 0
    for e in entities:
        pairs = []
        if e in got:
            for k, v in got[e].items():
                pairs.append((k, cj(v)))
        multi += len(pairs) - len(set(pairs))
        out[e] = set(pairs)
    return out, multi


def audit_graph(ctx, backend, hist):
    s = backend.session
    edges = [(te.parent_id, te.child_id) for te in s.query(TagEdit).all()]
    children = {}
    for p, c in edges:
        children.setdefault(p, []).append(c)
    # acyclic: DFS
    color = {}

    def dfs(n):
        color[n] = 1
        for c in children.get(n, []):
            if color.get(c) == 1:
                return True
            if color.get(c) is None and dfs(c):
                return True
        color[n] = 2
        return False
    for n in list(children):
        if color.get(n) is None and dfs(n):
            ctx.violation("tag-edit-cycle", "tag edit graph has a cycle", {"history": hist})
            break
    has_child = set(children)
    for t in s.query(Tag).all():
        if not t.is_current and t.tag_hash not in has_child:
            ctx.violation("superseded-without-edit", "non-current tag %s=%r has no child edit" % (t.key, t.value), {"history": hist})
        if t.is_current and t.tag_hash in has_child and t.entity_id in ENTITIES:
            ctx.violation("current-but-superseded", "current tag %s=%r has a child edit" % (t.key, t.value), {"history": hist})
    ctx.count("graph_audits")
    ctx.count("edit_edges", len(edges))


def run_history(ctx, backend, hist, prefix):
    """Runs on a shared backend with per-history entity ids (prefix) so that no state is shared."""
    model = Model()
    ents = [prefix + e for e in ENTITIES]
    superseded_then_touched = False
    touched_removed = set()
    for i, op in enumerate(hist):
        op2 = [op[0], prefix + op[1]] + list(op[2:])
        try:
            apply_backend(backend, op2)
        except Exception as e:
            ctx.violation("operation-raised", "%s raised %r" % (op[0], e), {"history": hist, "step": i})
            return False
        apply_model(model, op2)
        got, multi = observed(backend, ents)
        ctx.count("states_compared")
        if multi:
            ctx.count("duplicate_current_rows_observed", multi)
        for e in ents:
            exp = model.tags.get(e, set())
            if got[e] != exp:
                ctx.violation("current-tags-differ", "after step %d %r: entity %s has %r, model says %r" % (
                    i, op, e[len(prefix):], sorted(got[e]), sorted(exp)), {"history": hist, "step": i})
                return True
        keys = {p[0] for p in op[2]} | set(op[3] if len(op) > 3 else [])
        if op[0] in ("update", "rm"):
            touched_removed |= {(op[1], k) for k in keys}
        elif any((op[1], k) in touched_removed for k in keys):
            superseded_then_touched = True
    ctx.ev()
    if superseded_then_touched:
        ctx.nontrivial(hist)
        ctx.count("readd_after_supersede_histories")
    return True


def alphabet(small):
    ops = []
    ents = ENTITIES[:1] if small else ENTITIES
    vals = VALUES[:2] if small else VALUES
    for e in ents:
        for k in KEYS:
            for v in vals:
                ops.append(["add", e, [[k, v]]])
                ops.append(["update", e, [[k, v]]])
                ops.append(["rm", e, [[k, v]], []])
            ops.append(["rm", e, [], [k]])
        if not small:
            ops.append(["add", e, [[KEYS[0], VALUES[0]], [KEYS[0], VALUES[1]], [KEYS[1], VALUES[0]]]])
            ops.append(["update", e, [[KEYS[0], VALUES[1]], [KEYS[1], VALUES[2]]]])
            ops.append(["rm", e, [[KEYS[0], VALUES[0]]], [KEYS[1]]])
    return ops


def shard_exh(ctx, length, start, step, small):
    backend = engine.new_backend()
    ops = alphabet(small)
    n = 0
    for i, seq in enumerate(itertools.product(ops, repeat=length)):
        if i % step != start:
            continue
        n += 1
        run_history(ctx, backend, [list(o) for o in seq], "h%d-%d-" % (length, i))
        if n % 400 == 0:
            audit_graph(ctx, backend, "exhaustive batch")
            backend = engine.new_backend()
    audit_graph(ctx, backend, "exhaustive batch")


def shard_rand(ctx, n, sub):
    rnd = random.Random("%s-%s-c24" % (ctx.seed, sub))
    backend = engine.new_backend()
    ops = alphabet(False)
    for i in range(n):
        hist = [rnd.choice(ops) for _ in range(rnd.randint(5, 30))]
        run_history(ctx, backend, hist, "r%d-" % i)
        if i < 2:
            ctx.sample({"history": hist[:8]})
        if i % 100 == 99:
            audit_graph(ctx, backend, "random batch")
            backend = engine.new_backend()
    audit_graph(ctx, backend, "random batch")


def shard_cli(ctx, n, sub):
    """Histories through the real `redun tag add/update/rm` commands on a file database."""
    from redun.cli import RedunClient
    from redun.tags import format_tag_value
    from vlib import ctl, wf_tasks
    rnd = random.Random("%s-%s-c24cli" % (ctx.seed, sub))
    d = tempfile.mkdtemp(prefix="verif_c24_")
    try:
        cfg = os.path.join(d, ".redun")
        os.makedirs(cfg)
        with open(os.path.join(cfg, "redun.ini"), "w") as f:
            f.write("[backend]\ndb_uri = sqlite:///redun.db\n")
        client = RedunClient()
        client.stdout = open(os.devnull, "w")
        client.execute(["redun", "--config", cfg, "init"])
        # real entities: run a tiny workflow on that database (second connection to the same file)
        backend = engine.new_backend(db_uri="sqlite:///" + os.path.join(cfg, "redun.db"))
        out, c, s = engine.run_controlled(wf_tasks.TASKS["add"](wf_tasks.TASKS["inc"](1), 2),
                                          ctl.ExtremeChooser("eager_fifo"), backend=backend)
        job_ids = list(c.job_order)
        backend.session.commit()
        backend.session.close()
        backend.engine.dispose()
        # from here on observe through the CLI client's own connection (one writer, no lock contention)
        client.execute(["redun", "--config", cfg, "tag", "list"])
        backend = client.scheduler.backend
        for i in range(n):
            ents = job_ids[:2]
            model = Model()
            # clear leftovers of the previous history
            for e in ents:
                backend.delete_tags(e, [], KEYS)
            backend.session.commit()
            hist = []
            for _ in range(rnd.randint(3, 8)):
                kind = rnd.choice(["add", "update", "rm", "rmkey"])
                e = rnd.choice(ents)
                k, v = rnd.choice(KEYS), rnd.choice([1, "v", "two words", [1, 2]])
                text = "%s=%s" % (k, json.dumps(v) if not isinstance(v, str) or " " in v else v)
                if kind == "add":
                    argv, op = ["tag", "add", e, text], ["add", e, [[k, v]]]
                elif kind == "update":
                    argv, op = ["tag", "update", e, text], ["update", e, [[k, v]]]
                elif kind == "rm":
                    argv, op = ["tag", "rm", e, text], ["rm", e, [[k, v]], []]
                else:
                    argv, op = ["tag", "rm", e, "--", k], ["rm", e, [], [k]]
                hist.append(argv)
                try:
                    client.execute(["redun", "--config", cfg] + argv)
                except Exception as ex:
                    ctx.violation("cli-operation-raised", "%r raised %r" % (argv, ex), {"history": hist})
                    break
                apply_model(model, op)
                backend.session.expire_all()
                got, _ = observed(backend, ents)
                backend.session.commit()  # release this connection's read lock before the next CLI write
                ctx.count("cli_states_compared")
                bad = [e2 for e2 in ents if {p for p in got[e2] if p[0] in KEYS} != model.tags.get(e2, set())]
                if bad:
                    ctx.violation("current-tags-differ", "CLI history: entity has %r, model says %r" % (
                        sorted(got[bad[0]]), sorted(model.tags.get(bad[0], set()))), {"history": hist})
                    break
            ctx.ev()
            ctx.count("cli_histories")
    finally:
        shutil.rmtree(d, ignore_errors=True)


def main(ctx):
    if ctx.is_quick():
        ctx.shards("shard_exh", [{"length": 1, "start": 0, "step": 1, "small": False},
                                 {"length": 2, "start": 0, "step": 1, "small": False}] +
                   [{"length": 3, "start": s, "step": 4, "small": True} for s in range(4)], timeout=600)
        ctx.shards("shard_rand", [{"n": 60, "sub": s} for s in range(8)], timeout=600)
        ctx.shards("shard_cli", [{"n": 5, "sub": 0}], timeout=600)
        ctx.extra["exhaustive_lengths"] = "<=2 full alphabet (38 ops), 3 small alphabet (14 ops)"
    else:
        ctx.shards("shard_exh", [{"length": 1, "start": 0, "step": 1, "small": False},
                                 {"length": 2, "start": 0, "step": 1, "small": False}] +
                   [{"length": 3, "start": s, "step": 16, "small": False} for s in range(16)] +
                   [{"length": 4, "start": s, "step": 16, "small": True} for s in range(16)] +
                   [{"length": 5, "start": s, "step": 64, "small": True} for s in range(64)], timeout=3400)
        ctx.shards("shard_rand", [{"n": 1500, "sub": s} for s in range(16)], timeout=3400)
        ctx.shards("shard_cli", [{"n": 40, "sub": s} for s in range(4)], timeout=3400)
        ctx.extra["exhaustive_lengths"] = "<=3 full alphabet (38 ops), 4-5 small alphabet (14 ops)"
    ctx.require("states_compared", 5000)
    ctx.require("readd_after_supersede_histories", 100)
    ctx.require("graph_audits", 5)
    ctx.require("cli_states_compared", 10)


def replay(ctx, witness):
    hist = witness["history"]
    print(json.dumps(hist))
    if hist and isinstance(hist[0], list) and hist[0] and hist[0][0] == "tag":
        print("(CLI history; rerun the check to reproduce)")
        return
    backend = engine.new_backend()
    run_history(ctx, backend, hist, "replay-")
    audit_graph(ctx, backend, hist)
