"""Schedule controller: the harness owns the executor and the scheduler's event queue, hence the
schedule (DESIGN.md §1.2).  Nothing in redun is modified; Job.__init__/resolve/reject are wrapped from
the harness to observe the job tree and what each job is given.
"""
import collections
import random
import threading

from redun.executors.base import Executor
from redun.scheduler import Job, Scheduler
from redun.scripting import exec_script, get_task_command

from vlib.core import short_hash


class Deadlock(BaseException):
    """Queue empty, nothing in flight, workflow promise pending: the real loop would block forever."""


class StepLimit(BaseException):
    """Logical step budget exhausted (inconclusive, never a violation)."""


# ---- job observation (class-level wrappers, installed once) ------------------------------------
_observers = []
_installed = False


def _install():
    global _installed
    if _installed:
        return
    _installed = True
    orig_init, orig_resolve, orig_reject = Job.__init__, Job.resolve, Job.reject

    def init(self, task, expr, id=None, parent_job=None, execution=None, options=None):
        orig_init(self, task, expr, id=id, parent_job=parent_job, execution=execution, options=options)
        for o in _observers:
            o.on_job_created(self, parent_job, expr)

    def resolve(self, result):
        for o in _observers:
            o.on_job_settled(self, "ok", result)
        return orig_resolve(self, result)

    def reject(self, error):
        for o in _observers:
            o.on_job_settled(self, "err", error)
        return orig_reject(self, error)

    Job.__init__ = init
    Job.resolve = resolve
    Job.reject = reject


class Chooser:
    """Decides, at each choice point, which in-flight job (if any) reports next."""

    def pick(self, inflight, forced, where):
        raise NotImplementedError


class RandomChooser(Chooser):
    def __init__(self, seed, p=0.35):
        self.rnd = random.Random(seed)
        self.p = p

    def pick(self, inflight, forced, where):
        if forced or self.rnd.random() < self.p:
            return self.rnd.randrange(len(inflight))
        return None


class ExtremeChooser(Chooser):
    """fifo/lifo: only complete when forced (starve), eager: complete immediately."""

    def __init__(self, kind):
        self.kind = kind

    def pick(self, inflight, forced, where):
        if self.kind == "eager_fifo":
            return 0
        if self.kind == "eager_lifo":
            return len(inflight) - 1
        if not forced:
            return None
        return 0 if self.kind == "starve_fifo" else len(inflight) - 1


class PCTChooser(Chooser):
    """Random priorities per job with d priority-change points."""

    def __init__(self, seed, d=2, horizon=60):
        self.rnd = random.Random(seed)
        self.prio = {}
        self.change = set(self.rnd.sample(range(horizon), d))
        self.step = 0
        self.eager = self.rnd.random()

    def pick(self, inflight, forced, where):
        self.step += 1
        for j in inflight:
            if j not in self.prio:
                self.prio[j] = self.rnd.random()
        if self.step in self.change and inflight:
            self.prio[self.rnd.choice(inflight)] = -self.rnd.random()
        if not forced and self.rnd.random() > self.eager:
            return None
        best = max(range(len(inflight)), key=lambda i: self.prio[inflight[i]])
        return best


class ReplayChooser(Chooser):
    """Replays a decision prefix, then defers to `tail` (default: only when forced, FIFO)."""

    def __init__(self, decisions, tail=None):
        self.decisions = list(decisions)
        self.i = 0
        self.tail = tail or ExtremeChooser("starve_fifo")
        self.log = []  # (n_options, decision) for DFS bookkeeping

    def pick(self, inflight, forced, where):
        if self.i < len(self.decisions):
            d = self.decisions[self.i]
            self.i += 1
            if d is not None and d >= len(inflight):
                d = len(inflight) - 1
            if d is None and forced:
                d = 0
        else:
            d = self.tail.pick(inflight, forced, where)
        self.log.append((len(inflight), forced, d))
        return d


class ControlledQueue:
    def __init__(self, ctl):
        self.ctl = ctl
        self.q = collections.deque()

    def put(self, item, *a, **k):
        self.ctl.choice_point("put")
        self.q.append(item)
        self.ctl.events.append(("Q",))

    def empty(self):
        return not self.q

    def get(self, timeout=None, *a, **k):
        self.ctl.choice_point("get", forced=not self.q)
        self.ctl.on_get()
        return self.q.popleft()


class ControlledExecutor(Executor):
    def __init__(self, name, ctl):
        super().__init__(name)
        self.ctl = ctl

    def submit(self, job):
        self.ctl.on_submit(self, job, script=False)

    def submit_script(self, job):
        self.ctl.on_submit(self, job, script=True)


class Controller:
    """One controlled execution.  Usage:
         c = Controller(chooser); sched = c.make_scheduler(config/backends); c.run(sched, expr)
    """

    def __init__(self, chooser, max_steps=20000, executor_names=("default", "process", "alt")):
        _install()
        self.chooser = chooser
        self.max_steps = max_steps
        self.executor_names = executor_names
        self.events = []        # ("S", jobkey) submit, ("R", jobkey, ok) report, ("Q",) scheduler put
        self.submits = []       # dicts
        self.reports = []
        self.inflight = []      # list of (jobkey, job, script)
        self.jobs = {}          # job.id -> info dict
        self.job_order = []
        self.settled = {}       # job.id -> ("ok"|"err", canonical)
        self.decisions = []
        self.samples = []       # limits_used samples
        self.steps = 0
        self.in_completion = False
        self.scheduler = None
        self.deadlock = None
        self.held = collections.Counter()
        self.held_max = collections.Counter()
        self._keepalive = []
        self.limit_violations = []
        self.negative_limits = []
        self.waited_on_limits = False
        self.thread = threading.get_ident()

    # -- wiring ------------------------------------------------------------------------------
    def attach(self, scheduler):
        self.scheduler = scheduler
        for name in self.executor_names:
            scheduler.add_executor(ControlledExecutor(name, self))
        scheduler.events_queue = ControlledQueue(self)
        return scheduler

    def make_scheduler(self, config=None, backend=None):
        s = Scheduler(config=config, backend=backend, job_status_interval=None)
        if backend is None:
            s.load()
        return self.attach(s)

    # -- observers ----------------------------------------------------------------------------
    def on_job_created(self, job, parent_job, expr):
        if self.scheduler is None or job.execution is not self.scheduler._current_execution:
            return
        try:
            eh = expr.get_hash()
        except Exception:
            eh = None
        pid = getattr(parent_job, "id", None)
        self._keepalive.append(parent_job)
        self.jobs[job.id] = {"id": job.id, "task": job.task.fullname, "parent": pid, "expr_hash": eh,
                             "n": len(self.job_order), "job": job, "parent_obj": id(parent_job)}
        self.job_order.append(job.id)

    def on_job_settled(self, job, kind, value):
        if job.id not in self.jobs:
            return
        from vlib.wf import canon
        try:
            c = canon(value)
        except Exception as e:
            c = ["uncanon", repr(e)]
        info = self.jobs[job.id]
        info["settled"] = (kind, repr(c))
        info["settled_obj"] = value
        try:
            ea = job.eval_args
            info["eval_args"] = (tuple(ea[0]), dict(ea[1])) if ea else None
            if ea and ea[0]:
                fa = ea[0][0]
                if isinstance(fa, (int, str)) and not isinstance(fa, bool):
                    info["first_arg"] = fa
                    info["first_arg_known"] = True
        except Exception:
            pass
        self._settle_seq = getattr(self, "_settle_seq", 0) + 1
        info["settle_seq"] = self._settle_seq
        try:
            info["prov"] = job.recording_provenance()
        except Exception:
            info["prov"] = True
        info["status_was_cached"] = job.was_cached
        info["call_hash"] = job.call_hash
        info["eval_hash"] = job.eval_hash
        info["args_hash"] = job.args_hash
        info["context_hash"] = job.context_hash
        info["task_hash"] = job.task.hash

    # -- executor side ------------------------------------------------------------------------
    def on_submit(self, executor, job, script):
        key = self.jobs.get(job.id, {}).get("n", job.id)
        limits = dict(job.get_limits())
        try:
            opts = dict(job.get_options())
        except Exception:
            opts = {}
        rec = {"n": key, "id": job.id, "task": job.task.fullname, "task_hash": job.task.hash,
               "eval_hash": job.eval_hash, "args_hash": job.args_hash, "context_hash": job.context_hash,
               "limits": limits, "options": opts, "executor": executor.name,
               "parent": getattr(job.parent_job, "id", None), "args": job.args}
        self.submits.append(rec)
        self.events.append(("S", key))
        self.inflight.append((key, job, script))
        # shadow resource account at the executor boundary
        for r, c in limits.items():
            self.held[r] += c
            self.held_max[r] = max(self.held_max[r], self.held[r])
            cap = self.scheduler.limits.get(r, 1)
            if self.held[r] > cap:
                self.limit_violations.append({"resource": r, "held": self.held[r], "limit": cap, "job": rec["task"],
                                              "event": len(self.events)})

    def complete(self, idx):
        key, job, script = self.inflight.pop(idx)
        self.in_completion = True
        try:
            args, kwargs = job.args
            try:
                if script:
                    result = exec_script(get_task_command(job.task, args, kwargs))
                else:
                    result = job.task.func(*args, **kwargs)
                ok = True
            except Exception as e:
                result, ok = e, False
            for r, c in job.get_limits().items():
                self.held[r] -= c
            self.events.append(("R", key, ok))
            self.reports.append({"n": key, "ok": ok, "error": None if ok else result, "task": job.task.fullname,
                                 "args": repr(job.args), "id": job.id})
            if ok:
                self.scheduler.done_job(job, result)
            else:
                self.scheduler.reject_job(job, result)
        finally:
            self.in_completion = False

    # -- queue side ---------------------------------------------------------------------------
    def choice_point(self, where, forced=False):
        if self.in_completion:
            return
        while self.inflight:
            self.steps += 1
            if self.steps > self.max_steps:
                raise StepLimit()
            d = self.chooser.pick([k for k, _, _ in self.inflight], forced, where)
            self.decisions.append(d)
            if d is None:
                break
            self.complete(d)
            forced = False
        if forced and not self.inflight:
            s = self.scheduler
            if s.workflow_promise is not None and s.workflow_promise.is_pending:
                self.deadlock = {
                    "pending_limits": [j.task.fullname for j, _ in s._jobs_pending_limits],
                    "limits_used": dict(s.limits_used), "limits": dict(s.limits),
                    "unsettled_jobs": [self.jobs[i]["task"] for i in self.job_order if "settled" not in self.jobs[i]],
                }
                raise Deadlock()
            raise Deadlock()

    def on_get(self):
        s = self.scheduler
        if s._jobs_pending_limits:
            self.waited_on_limits = True
        lu = dict(s.limits_used)
        for r, v in lu.items():
            if v < 0:
                self.negative_limits.append({"resource": r, "value": v, "event": len(self.events)})
        self.steps += 1
        if self.steps > self.max_steps:
            raise StepLimit()

    # -- running ------------------------------------------------------------------------------
    def run(self, scheduler, expr, **run_kwargs):
        """Returns ("v", value) | ("e", exception) | ("deadlock", info) | ("steplimit", None)."""
        _observers.append(self)
        try:
            try:
                v = scheduler.run(expr, **run_kwargs)
                return ("v", v)
            except Deadlock:
                return ("deadlock", self.deadlock)
            except StepLimit:
                return ("steplimit", None)
            except Exception as e:
                return ("e", e)
        finally:
            _observers.remove(self)

    def signature(self):
        """Schedule signature: order of submit/report events relative to scheduler puts."""
        return short_hash(repr(self.events))

    def report_order(self):
        return [e[1] for e in self.events if e[0] == "R"]


class PassiveObserver:
    """Observes jobs of a scheduler that runs on real executors (no schedule control)."""

    def __init__(self, scheduler):
        _install()
        self.scheduler = scheduler
        self.jobs = {}
        self.job_order = []

    def on_job_created(self, job, parent_job, expr):
        if job.execution is not self.scheduler._current_execution:
            return
        self.jobs[job.id] = {"id": job.id, "task": job.task.fullname, "parent": getattr(parent_job, "id", None),
                             "n": len(self.job_order), "job": job}
        self.job_order.append(job.id)

    def on_job_settled(self, job, kind, value):
        if job.id in self.jobs:
            self.jobs[job.id]["settled"] = (kind,)

    def __enter__(self):
        _observers.append(self)
        return self

    def __exit__(self, *a):
        _observers.remove(self)


def dfs_schedules(run_with, budget):
    """Stateless DFS over decision sequences by re-execution.
    run_with(ReplayChooser) must execute the program once.  Yields after each run; returns True if the
    space was exhausted within `budget` runs."""
    stack = [[]]
    runs = 0
    seen = set()
    while stack:
        if runs >= budget:
            return False, runs
        prefix = stack.pop()
        ch = ReplayChooser(prefix)
        run_with(ch)
        runs += 1
        # extend: for each decision point beyond the prefix, branch on the alternatives not taken
        log = ch.log
        for i in range(len(prefix), len(log)):
            n, forced, taken = log[i]
            base = [d for (_, _, d) in log[:i]]
            alts = list(range(n)) + ([] if forced else [None])
            for a in alts:
                if a == taken:
                    continue
                cand = base + [a]
                key = tuple(cand)
                if key not in seen:
                    seen.add(key)
                    stack.append(cand)
    return True, runs
