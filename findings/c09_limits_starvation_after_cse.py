"""
Side finding (UNCHANGED redun): lost wake-up when a job nominated from the
pending-limits queue collapses (CSE) onto an equivalent job that is still pending.

Limit x=1.  `hold` takes x first.  The waiting queue then becomes, in this order,
    [A(1) (child of main),  A(1) (duplicate, child of `wrap`),  B(2) (child of `wrap_b`)].
hold finishes   -> A is started.
A's function returns -> x released, the duplicate A' is nominated (B does not fit in the same
pass).  A' is executed before A is resolved, finds A in `_pending_jobs`, collapses onto it and
consumes nothing.  When A resolves, A' finishes as "cached" and cached jobs never re-check the
queue, so B is never nominated again although x is free: Scheduler.run() never returns.

Exit 1 (and print the stuck state) if run() does not return within TIMEOUT, else exit 0.
"""

import os
import sys
import threading
import time

from redun import Scheduler, task
from redun.config import Config

redun_namespace = "c09_side"
TIMEOUT = 20.0


@task(limits=["x"], cache=False)
def hold(seconds: float) -> str:
    time.sleep(seconds)
    return "hold"


@task(limits=["x"])
def A(v: int) -> int:
    return v


@task(limits=["x"], cache=False)
def B(v: int):
    return ("B", v)


@task(cache=False)
def wrap(v: int):
    # Same call A(v) but under a different parent job -> a second, equivalent Job.
    return A(v)


@task(cache=False)
def wrap_b(v: int):
    time.sleep(0.1)  # make sure B is queued after both A jobs
    return B(v)


@task(cache=False)
def main():
    return [hold(0.4), A(1), wrap(1), wrap_b(2)]


def run() -> int:
    scheduler = Scheduler(config=Config({"limits": {"x": "1"}}))
    scheduler.load()
    finished = threading.Event()

    def watchdog():
        if finished.wait(TIMEOUT):
            return
        print(f"\nHANG: Scheduler.run() did not return within {TIMEOUT:.0f}s "
              "although every task function has returned.")
        for line in scheduler.get_job_status_report():
            print("   ", line)
        waiting = [job.task.fullname for job, _ in scheduler._jobs_pending_limits]
        print("Jobs still waiting for resources:", waiting)
        print("Resources in use:", dict(scheduler.limits_used), "limits:", scheduler.limits)
        sys.stdout.flush()
        os._exit(1)

    threading.Thread(target=watchdog, daemon=True).start()
    start = time.time()
    result = scheduler.run(main())
    finished.set()
    print(f"run() returned {result} in {time.time() - start:.2f}s")
    return 0 if result == ["hold", 1, 1, ("B", 2)] else 1


if __name__ == "__main__":
    sys.exit(run())
