"""C10 — remote-executor monitors never lose a submitted job.

History monitor on the five real executor classes (Docker, AWS Batch, Kubernetes, GCP Batch, AWS Glue) with
their real monitor / arrayer / submission threads; only the cloud or container API functions the executor
modules import are replaced by an in-process fake that completes every job after a fixed number of status
polls.  The recording scheduler notes every done_job / reject_job call.

Interleavings (vlib/thr.py):
  * systematic: one preemption at every statement line (k-th arrival) of the executor's _monitor / stop /
    _start / _submit (and of the arrayer's and Glue's submission thread's methods).  While a background
    thread is parked, the "scheduler thread" submits a further job; while the submitting thread is parked,
    the background threads run until the first job is reported and they try to shut down;
  * chained stress: the next job is submitted at the moment the previous one is reported (the situation of a
    sequential workflow), with seeded yield injection on every observed line.
Oracle at quiescence: every submitted job was reported exactly once through done_job or reject_job, and
reject_job(None, error) (a failing monitor) never happened.  A lost job is decided structurally, not by a
deadline: every submit() call has returned, the job is unreported and still sits in the executor's pending
structures, and the only thread that reports jobs (the executor's _monitor thread) is not alive - nothing
but a further submission would start one.  A job unreported while a monitor thread is still alive after the
bounded wait is "inconclusive".
"""
import logging
import os
import random
import shutil
import tempfile
import threading
import time
import types
from collections import Counter
from unittest import mock

from redun import Scheduler
from redun.config import Config
from redun.scheduler import Job

from vlib import thr, wf_tasks

PROPERTY = "C10"
LEVEL = "exploration"
RULE = ("executors {docker, aws_batch (arrays off / on), k8s (arrays off / on), gcp_batch (arrays off / on), aws_glue}; fake "
        "API completes a job after 1..2 polls; systematic: job A (or an array of two) submitted, one preemption at every statement line "
        "(1st..3rd arrival) of the monitor-side and submit-side methods, job B submitted while the monitor side is parked "
        "(or monitor side runs while B's submitter is parked); stress: chains of 3..8 jobs each submitted when the previous "
        "is reported, seeded yields.  Non-trivial = distinct (executor, role, method, line, hit) whose park point was reached, "
        "plus distinct stress configurations.")
ASSUMPTIONS = ["API fakes are deterministic and complete every job; API failures are not injected",
               "a cloud job is not reported terminal before the submitting thread has finished registering it "
               "(k8s array jobs: all indices stored in pending_k8s_jobs)",
               "submissions come from one thread (the scheduler thread)",
               "line-granular preemption under CPython's GIL"]


class RecScheduler(Scheduler):
    """Real Scheduler object (config, logging) whose completion entry points record instead of evaluating."""

    def __init__(self, configdir):
        super().__init__(config=Config({"backend": {"db_uri": "sqlite:///:memory:"}}))
        self.rec_lock = threading.Lock()
        self.reports = []      # (job id or None, kind, thread name)
        self.logger.setLevel(logging.CRITICAL)

    def done_job(self, job, result, job_tags=[]):
        with self.rec_lock:
            self.reports.append((job.id if job else None, "done", threading.current_thread().name, result))

    def reject_job(self, job, error, error_traceback=None, job_tags=[]):
        with self.rec_lock:
            self.reports.append((job.id if job else None, "reject", threading.current_thread().name, repr(error)))

    def add_job_tags(self, job, tags):
        pass

    def log(self, *a, **k):
        pass


class FakeCloud:
    """Jobs complete after `polls` status queries."""

    def __init__(self, polls):
        self.lock = threading.Lock()
        self.polls = polls
        self.jobs = {}         # api id -> remaining polls
        self.n = 0
        self.describes = 0
        self.polls_done = 0      # status queries answered (also for an empty id list): the monitor's logical clock
        self.sizes = {}
        # environment assumption hook: a cloud job is never terminal before the submitting code has finished
        # registering it (real jobs take seconds to run; registration takes microseconds)
        self.ready = lambda jid: True

    def new_id(self, prefix="j"):
        with self.lock:
            self.n += 1
            jid = "%s%d" % (prefix, self.n)
            self.jobs[jid] = self.polls
            return jid

    def tick(self):
        with self.lock:
            self.polls_done += 1

    def poll(self, jid):
        """True when finished."""
        if not self.ready(jid):
            return False
        with self.lock:
            self.describes += 1
            self.polls_done += 1
            base = jid.split(":")[0]
            key = jid if jid in self.jobs else base
            left = self.jobs.get(key, 0)
            if left <= 1:
                self.jobs[key] = 0
                return True
            self.jobs[key] = left - 1
            return False


def mk_job(i, task=None, options=None):
    t = task or wf_tasks.TASKS["inc"]
    if options:
        t = t.options(**options)
    expr = t(i)
    j = Job(t, expr)
    j.args = ((i,), {})
    j.eval_hash = "evalhash%d" % i
    j.args_hash = "argshash%d" % i
    return j


# ---------------------------------------------------------------------------------------------------
# adapters

class Adapter:
    name = ""
    arrays = False

    def __init__(self, arrays=False):
        self.arrays = arrays

    def label(self):
        return self.name + ("+arrays" if self.arrays else "")

    def threads(self, ex):
        raise NotImplementedError

    def pending(self, ex):
        raise NotImplementedError

    def stuck(self, ex):
        """Description of a stage that holds a job although the only thread that empties it is not alive."""
        arr = getattr(ex, "arrayer", None)
        if arr is not None and sum(len(v) for v in arr.pending.values()) and not arr._monitor_thread.is_alive():
            return "job arrayer holds %d job(s) and its thread is not alive" % sum(len(v) for v in arr.pending.values())
        if hasattr(ex, "pending_glue_jobs") and len(ex.pending_glue_jobs) and not ex._submit_thread.is_alive():
            return "pending_glue_jobs holds %d job(s) and the submission thread is not alive" % len(ex.pending_glue_jobs)
        return None

    def reporters(self, ex):
        """Threads that call done_job / reject_job for submitted jobs (only _monitor does)."""
        t = getattr(ex, "_thread", None) or getattr(ex, "_monitor_thread", None)
        return [t] if t is not None else []


def _result(prefix, job):
    return (("result", job.id), True)


class DockerA(Adapter):
    name = "docker"

    def make(self, sched, d, fake, interval):
        from redun.executors.docker import DockerExecutor
        cfg = Config({"e": {"image": "img", "scratch": os.path.join(d, "scratch"), "job_monitor_interval": str(interval),
                            "code_package": "False"}})
        ex = DockerExecutor("e", sched, cfg["e"])
        ex._default_job_options["volumes"] = []
        return ex

    def patches(self, fake):
        import redun.executors.docker as m

        def submit_task(image, scratch, job, task, **kw):
            return {"jobId": fake.new_id("c")}

        def iter_job_status(scratch, id2job):
            fake.tick()
            for jid in list(id2job):
                if fake.poll(jid):
                    yield {"jobId": jid, "status": "SUCCEEDED", "logs": ""}
        return [mock.patch.object(m, "submit_task", submit_task), mock.patch.object(m, "submit_command", submit_task),
                mock.patch.object(m, "iter_job_status", iter_job_status), mock.patch.object(m, "parse_job_result", _result)]

    def funcs(self):
        from redun.executors.docker import DockerExecutor as E
        return {"monitor": [E._monitor, E.stop, E._process_job_status], "submit": [E._submit, E._start]}

    def threads(self, ex):
        return [ex._thread] if ex._thread else []

    def pending(self, ex):
        return len(ex._pending_jobs)


class AwsA(Adapter):
    name = "aws_batch"

    def make(self, sched, d, fake, interval):
        from redun.executors.aws_batch import AWSBatchExecutor
        c = {"image": "img", "queue": "q", "s3_scratch": os.path.join(d, "scratch"), "job_monitor_interval": str(interval),
             "job_stale_time": "0.0", "code_package": "False", "aws_region": "us-west-2"}
        c["min_array_size"] = "2" if self.arrays else "0"
        c["max_array_size"] = "3"
        ex = AWSBatchExecutor("e", sched, Config({"e": c})["e"])
        ex.gather_inflight_jobs = lambda: None
        return ex

    def patches(self, fake):
        import redun.executors.aws_batch as m
        import redun.executors.aws_utils as u

        def submit_task(image, queue, scratch, job, task, **kw):
            return {"jobId": fake.new_id("b"), "jobName": "n"}

        def iter_batch_job_status(job_ids, pending_truncate=10, aws_region=None):
            fake.tick()
            for jid in job_ids:
                yield {"jobId": jid, "status": "SUCCEEDED" if fake.poll(jid) else "RUNNING"}
        return [mock.patch.object(u, "get_aws_user", lambda *a, **k: "alice"),
                mock.patch.object(m, "submit_task", submit_task), mock.patch.object(m, "submit_command", submit_task),
                mock.patch.object(m, "iter_batch_job_status", iter_batch_job_status),
                mock.patch.object(m, "parse_job_result", _result),
                mock.patch.object(m, "get_job_log_stream", lambda *a, **k: None),
                mock.patch.object(m, "write_array_job_scratch_files", lambda *a, **k: None)]

    def funcs(self):
        from redun.executors.aws_batch import AWSBatchExecutor as E
        from redun.job_array import JobArrayer as J
        d = {"monitor": [E._monitor, E.stop, E._process_job_status], "submit": [E._submit, E._start]}
        if self.arrays:
            d["arrayer"] = [J._monitor_stale_jobs, J.submit_pending_jobs, J.stop, E._submit_single_job, E._submit_array_job]
        return d

    def threads(self, ex):
        return [t for t in [ex._thread, ex.arrayer._monitor_thread] if t]

    def pending(self, ex):
        return len(ex.pending_batch_jobs) + sum(len(v) for v in ex.arrayer.pending.values())


def _k8s_job(name, done, parallelism=1):
    st = types.SimpleNamespace(succeeded=1 if done else None, failed=None, conditions=None, completed_indexes=None)
    if parallelism > 1 and done:
        st.conditions = [types.SimpleNamespace(type="Complete", status="True", message=None, reason=None)]
        st.completed_indexes = "0-%d" % (parallelism - 1)
    return types.SimpleNamespace(metadata=types.SimpleNamespace(name=name, uid="uid-" + name, labels={}, annotations={}),
                                 spec=types.SimpleNamespace(parallelism=parallelism), status=st)


class K8sA(Adapter):
    name = "k8s"

    def make(self, sched, d, fake, interval):
        import redun.executors.k8s as m
        c = {"image": "img", "scratch": os.path.join(d, "scratch"), "job_monitor_interval": str(interval),
             "job_stale_time": "0.0", "code_package": "False", "namespace": "ns", "type": "k8s"}
        c["min_array_size"] = "2" if self.arrays else "0"
        c["max_array_size"] = "3"
        client = mock.MagicMock()
        client.version.return_value = (1, 25)
        with mock.patch.object(m.k8s_utils, "K8SClient", lambda *a, **k: client):
            ex = m.K8SExecutor("e", sched, Config({"e": c})["e"])
        ex.gather_inflight_jobs = lambda: None
        ex._setup_secrets = lambda: None
        ex.create_namespace = False

        def ready(name):
            v = ex.pending_k8s_jobs.get(name)
            return not isinstance(v, dict) or len(v) >= fake.sizes.get(name, 1)
        fake.ready = ready
        return ex

    def patches(self, fake):
        import redun.executors.k8s as m
        sizes = fake.sizes

        def submit_task(client, image, namespace, scratch, job, task, array_size=0, **kw):
            name = fake.new_id("k")
            sizes[name] = max(array_size or 1, 1)
            return _k8s_job(name, False, sizes[name])

        def submit_command(client, image, namespace, scratch, job, command, **kw):
            return submit_task(client, image, namespace, scratch, job, None)

        def k8s_describe_jobs(client, names, namespace):
            fake.tick()
            return [_k8s_job(n, fake.poll(n), sizes.get(n, 1)) for n in names]
        return [mock.patch.object(m, "submit_task", submit_task), mock.patch.object(m, "submit_command", submit_command),
                mock.patch.object(m, "k8s_describe_jobs", k8s_describe_jobs),
                mock.patch.object(m, "get_k8s_job_pods", lambda *a, **k: []),
                mock.patch.object(m.k8s_utils, "delete_job", lambda *a, **k: None),
                mock.patch.object(m, "parse_job_result", _result),
                mock.patch.object(m, "write_array_job_scratch_files", lambda *a, **k: None)]

    def funcs(self):
        from redun.executors.k8s import K8SExecutor as E
        from redun.job_array import JobArrayer as J
        d = {"monitor": [E._monitor, E.stop, E._process_k8s_job_status], "submit": [E._submit, E._start]}
        if self.arrays:
            d["arrayer"] = [J._monitor_stale_jobs, J.submit_pending_jobs, J.stop, E._submit_single_job, E._submit_array_job]
        return d

    def threads(self, ex):
        return [t for t in [getattr(ex, "_thread", None), ex.arrayer._monitor_thread] if t]

    def pending(self, ex):
        n = 0
        for v in ex.pending_k8s_jobs.values():
            n += len(v) if isinstance(v, dict) else 1
        return n + sum(len(v) for v in ex.arrayer.pending.values())


class GcpA(Adapter):
    name = "gcp_batch"

    def make(self, sched, d, fake, interval):
        import redun.executors.gcp_batch as m
        c = {"gcs_scratch": os.path.join(d, "scratch"), "project": "p", "region": "r", "image": "img",
             "job_monitor_interval": str(interval), "job_stale_time": "0.0", "code_package": "False"}
        c["min_array_size"] = "2" if self.arrays else "0"
        c["max_array_size"] = "3"
        ex = m.GCPBatchExecutor("e", sched, Config({"e": c})["e"])
        ex.gather_inflight_jobs = lambda: None
        ex.gcp_batch_client = mock.MagicMock()
        return ex

    def patches(self, fake):
        import redun.executors.gcp_batch as m
        from google.cloud.batch_v1 import TaskStatus

        def batch_submit(client=None, job_name=None, task_count=1, **kw):
            name = fake.new_id("g")
            return types.SimpleNamespace(uid="uid" + name, name=name,
                                         task_groups=[types.SimpleNamespace(name="groups/" + name, task_count=task_count)])

        def get_task(client=None, task_name=None):
            jid = task_name.split("/")[1]
            done = fake.poll(jid + ":" + task_name.rsplit("/", 1)[1])
            st = TaskStatus.State.SUCCEEDED if done else TaskStatus.State.RUNNING
            return types.SimpleNamespace(name=task_name, status=types.SimpleNamespace(state=st))
        # the GCP monitor makes no API call when it has no task to ask about: its sleep is the logical clock
        tproxy = types.SimpleNamespace(**{k: v for k, v in time.__dict__.items() if not k.startswith("__")})
        tproxy.sleep = lambda sec: (fake.tick(), time.sleep(sec))[1]
        return [mock.patch.object(m, "time", tproxy),
                mock.patch.object(m.gcp_utils, "batch_submit", batch_submit), mock.patch.object(m.gcp_utils, "get_task", get_task),
                mock.patch.object(m.gcp_utils, "get_gcp_batch_client", lambda *a, **k: mock.MagicMock()),
                mock.patch.object(m.gcp_utils, "get_compute_machine_type", lambda *a, **k: types.SimpleNamespace(guest_cpus=64, memory_mb=10 ** 6)),
                mock.patch.object(m.gcp_utils, "get_gcp_compute_client", lambda *a, **k: mock.MagicMock()),
                mock.patch.object(m, "parse_job_result", _result),
                mock.patch.object(m, "write_array_job_scratch_files", lambda *a, **k: None),
                mock.patch.object(m, "get_oneshot_command", lambda *a, **k: ["redun", "oneshot"])]

    def funcs(self):
        from redun.executors.gcp_batch import GCPBatchExecutor as E
        from redun.job_array import JobArrayer as J
        d = {"monitor": [E._monitor, E.stop, E._process_task_status], "submit": [E._submit, E._start]}
        if self.arrays:
            d["arrayer"] = [J._monitor_stale_jobs, J.submit_pending_jobs, J.stop, E._submit_single_job, E._submit_array_job]
        return d

    def threads(self, ex):
        return [t for t in [ex._thread, ex.arrayer._monitor_thread] if t]

    def pending(self, ex):
        return len(ex.pending_batch_tasks) + sum(len(v) for v in ex.arrayer.pending.values())


class GlueA(Adapter):
    name = "aws_glue"

    def make(self, sched, d, fake, interval):
        import redun.executors.aws_glue as m
        from redun.file import File
        c = {"s3_scratch": os.path.join(d, "scratch"), "job_monitor_interval": str(interval), "job_retry_interval": str(interval),
             "code_package": "False", "role": "role", "aws_region": "us-west-2", "debug": "False"}
        ex = m.AWSGlueExecutor("e", sched, Config({"e": c})["e"])
        ex.glue_job_name = "gluejob"
        ex.redun_zip_location = "zip"
        ex.code_file = File(os.path.join(d, "code.zip"))
        ex.gather_inflight_jobs = lambda: None
        return ex

    def patches(self, fake):
        import redun.executors.aws_glue as m

        class Busy(Exception):
            pass

        class Limit(Exception):
            pass
        client = types.SimpleNamespace(exceptions=types.SimpleNamespace(ConcurrentRunsExceededException=Busy,
                                                                        ResourceNumberLimitExceededException=Limit))

        def submit_glue_job(job, task, **kw):
            return {"JobRunId": fake.new_id("r")}

        def glue_describe_jobs(ids, glue_job_name=None, aws_region=None):
            fake.tick()
            for i in ids:
                yield {"Id": i, "JobRunState": "SUCCEEDED" if fake.poll(i) else "RUNNING", "LogGroupName": "g"}
        return [mock.patch.object(m.aws_utils, "get_aws_client", lambda *a, **k: client),
                mock.patch.object(m, "submit_glue_job", submit_glue_job),
                mock.patch.object(m, "glue_describe_jobs", glue_describe_jobs),
                mock.patch.object(m, "parse_job_result", _result)]

    def funcs(self):
        from redun.executors.aws_glue import AWSGlueExecutor as E
        return {"monitor": [E._monitor, E.stop, E._process_job_status], "submit": [E.submit, E._start],
                "glue_submit": [E._submission_thread, E.submit_pending_job]}

    def threads(self, ex):
        return [ex._monitor_thread, ex._submit_thread]

    def pending(self, ex):
        return len(ex.pending_glue_jobs) + len(ex.running_glue_jobs)


ADAPTERS = [DockerA(), AwsA(False), AwsA(True), K8sA(False), K8sA(True), GcpA(False), GcpA(True), GlueA()]

ROLE_THREAD = {
    "monitor": lambda t: "(_monitor)" in t.name,
    "arrayer": lambda t: "(_monitor_stale_jobs)" in t.name,
    "glue_submit": lambda t: "(_submission_thread)" in t.name,
    "submit": lambda t: t.name == "submitB",
}


def adapter_by_label(label):
    for a in ADAPTERS:
        if a.label() == label:
            return a
    raise KeyError(label)


# ---------------------------------------------------------------------------------------------------

class Env:
    def __init__(self, adapter, polls, interval):
        self.adapter = adapter
        self.d = tempfile.mkdtemp(prefix="verif_c10_")
        self.fake = FakeCloud(polls)
        self.stack = []
        for p in adapter.patches(self.fake):
            p.start()
            self.stack.append(p)
        self.sched = RecScheduler(self.d)
        self.ex = adapter.make(self.sched, self.d, self.fake, interval)
        self.submitted = []

    def submit(self, job):
        self.submitted.append(job.id)
        self.ex.submit(job)

    def reported(self):
        with self.sched.rec_lock:
            return [r for r in self.sched.reports]

    def alive(self):
        return [t for t in self.adapter.threads(self.ex) if t is not None and t.is_alive()]

    def reporters_alive(self):
        return [t for t in self.adapter.reporters(self.ex) if t.is_alive()]

    def settle(self, max_wait=8.0):
        """Wait until every submitted job is reported, or no reporting thread is alive (stable), or a job sits in a stage
        whose consumer thread is dead while the monitor completed 60 further status polls (decided on logical steps), or
        max_wait.  Only called after every submit() call has returned: from then on nothing starts a thread."""
        t0 = time.time()
        dead_streak = 0
        stuck_since = None
        while time.time() - t0 < max_wait:
            ids = {r[0] for r in self.reported()}
            if all(j in ids for j in self.submitted):
                return "all-reported"
            if not self.reporters_alive():
                dead_streak += 1
                if dead_streak >= 5:
                    return "threads-dead"
            else:
                dead_streak = 0
            why = self.adapter.stuck(self.ex)
            if why:
                if stuck_since is None:
                    stuck_since = self.fake.polls_done
                elif self.fake.polls_done - stuck_since >= 60:
                    self.stuck_reason = why
                    return "stage-stuck"
            else:
                stuck_since = None
            time.sleep(0.003)
        return "timeout"

    def close(self):
        # never block on the code under test: request the stop from a helper thread and bound every join
        h = threading.Thread(target=lambda: self.ex.stop(), daemon=True)
        h.start()
        h.join(2)
        for name in ("is_running", "_is_running"):
            if hasattr(self.ex, name):
                setattr(self.ex, name, False)
        arr = getattr(self.ex, "arrayer", None)
        if arr is not None:
            arr._exit_flag.set()
        leaked = 0
        for t in self.adapter.threads(self.ex):
            if t is not None and t.is_alive():
                t.join(2)
                leaked += t.is_alive()
        self.leaked = leaked
        for p in reversed(self.stack):
            p.stop()
        shutil.rmtree(self.d, ignore_errors=True)


def judge(ctx, env, state, wit):
    reps = env.reported()
    ctx.count("jobs_submitted", len(env.submitted))
    ctx.count("reports", len(reps))
    c = Counter(r[0] for r in reps)
    ok = True
    for r in reps:
        if r[0] is None:
            ctx.violation("%s:monitor-failed" % env.adapter.label(), "reject_job(None, %s) from %s" % (r[3], r[2]), wit)
            ok = False
    dup = [j for j in env.submitted if c.get(j, 0) > 1]
    if dup:
        ctx.violation("%s:job-reported-twice" % env.adapter.label(), "%d job(s) reported more than once" % len(dup), wit)
        ok = False
    lost = [j for j in env.submitted if c.get(j, 0) == 0]
    if lost and ok and state == "stage-stuck":
        ctx.violation("%s:job-stuck-in-stage-without-consumer-thread" % env.adapter.name,
                      "%d submitted job(s) never reported: %s (the monitor kept polling meanwhile)" % (len(lost), env.stuck_reason), wit)
        ok = False
    elif lost and ok:
        if state == "threads-dead":
            ctx.violation("%s:submission-lost-in-monitor-exit-window" % env.adapter.name,
                          "%d submitted job(s) never reported: %d still pending in the executor and no monitor thread is alive to report them"
                          % (len(lost), env.adapter.pending(env.ex)), wit)
            ok = False
        else:
            ctx.count("inconclusive_unreported_with_live_thread")
            ctx.mark_inconclusive("job unreported after bounded wait with a live executor thread: %r" % (wit,))
            ok = False
    return ok


def systematic_case(ctx, ex, adapter, role, code_i, line, hit, polls, wit_extra, initial=1):
    interval = 0.002
    env = Env(adapter, polls, interval)
    code = ex.codes[code_i]
    wit = {"mode": "park", "executor": adapter.label(), "role": role, "func": code.co_name,
           "line_offset": line - code.co_firstlineno, "hit": hit, "polls": polls, "initial_jobs": initial}
    wit.update(wit_extra)
    try:
        ex.set_plan(code_i, line, hit, only_thread=ROLE_THREAD[role])
        jobA, jobB = mk_job(1), mk_job(2)
        for extra in range(initial - 1):
            env.submit(mk_job(10 + extra))    # same task and options as A: forms an array where arrays are on
        if role == "submit":
            env.submit(jobA)
            env.submitted.append(jobB.id)
            t = threading.Thread(target=lambda: env.ex.submit(jobB), name="submitB", daemon=True)
            t.start()
            if ex.wait_reached(0.15):
                ctx.count("park_points_reached")
                ctx.nontrivial([adapter.label(), role, code.co_name, wit["line_offset"], hit, initial])
                # let the background threads finish job A and go through their shutdown path
                t0 = time.time()
                while time.time() - t0 < 0.4:
                    ids = {r[0] for r in env.reported()}
                    if jobA.id in ids and not env.alive():
                        break
                    time.sleep(0.002)
                ctx.count("background_ran_while_submitter_parked")
            else:
                ctx.count("park_points_not_on_path")
            ex.resume()
            ex.plan = None
            t.join(5)
        else:
            env.submit(jobA)
            if ex.wait_reached(0.15):
                ctx.count("park_points_reached")
                ctx.nontrivial([adapter.label(), role, code.co_name, wit["line_offset"], hit, initial])
                env.submitted.append(jobB.id)
                t = threading.Thread(target=lambda: env.ex.submit(jobB), name="submitB", daemon=True)
                t.start()
                t.join(0.05)
                if t.is_alive():
                    ctx.count("park_points_inside_lock")
                else:
                    ctx.count("submissions_while_background_parked")
                ex.resume()
                ex.plan = None
                t.join(5)
            else:
                ctx.count("park_points_not_on_path")
                ex.resume()
                ex.plan = None
        state = env.settle()
        ctx.ev()
        return judge(ctx, env, state, wit)
    finally:
        ex.resume()
        ex.plan = None
        env.close()


def shard_systematic(ctx, label, part, parts):
    adapter = adapter_by_label(label)
    groups = adapter.funcs()
    flat, roles = [], []
    for role, fs in groups.items():
        for f in fs:
            flat.append(f)
            roles.append(role)
    hits = (1, 2, 3) if not ctx.is_quick() else (1, 2)
    with thr.Explorer(flat) as ex:
        # probe: which lines of the long submit / status functions are on the path at all
        for polls in (1, 2):
            env = Env(adapter, polls, 0.002)
            try:
                for i in range(4):
                    env.submit(mk_job(50 + i))
                    if i % 2:
                        env.settle(2.0)
            finally:
                env.close()
        seen = set(ex.code_lines_seen)
        always = {"_monitor", "stop", "_start", "_monitor_stale_jobs", "_submission_thread"}
        k = 0
        for (ci, ln) in ex.lines():
            if ex.codes[ci].co_name not in always and (id(ex.codes[ci]), ln) not in seen:
                ctx.count("lines_never_executed_in_probe")
                continue
            for hit in hits:
                for polls in ((1, 2) if not ctx.is_quick() else (1,)):
                    k += 1
                    if k % parts != part:
                        continue
                    systematic_case(ctx, ex, adapter, roles[ci], ci, ln, hit, polls, {})
                    if adapter.arrays and (not ctx.is_quick() or hit == 1):
                        systematic_case(ctx, ex, adapter, roles[ci], ci, ln, hit, polls, {}, initial=2)
        ctx.count("line_events", ex.events)


def stress_case(ctx, ex, adapter, rnd, where):
    polls = rnd.choice([1, 1, 2])
    interval = rnd.choice([0.001, 0.002, 0.004])
    n = rnd.randint(3, 8)
    seed = rnd.getrandbits(32)
    env = Env(adapter, polls, interval)
    wit = {"mode": "chain-stress", "executor": adapter.label(), "jobs": n, "polls": polls, "interval": interval,
           "yield_seed": seed, "where": where}
    try:
        ex.set_random(seed, p_yield=rnd.choice([0.05, 0.2, 0.5]))
        state = "all-reported"
        for i in range(n):
            width = rnd.choice([1, 1, 1, 2, 3])
            for w in range(width):
                env.submit(mk_job(100 * i + w))
            state = env.settle(max_wait=6.0)
            if state != "all-reported":
                break
        ctx.ev()
        ctx.count("stress_chains")
        ctx.nontrivial([adapter.label(), n, polls, interval, seed])
        return judge(ctx, env, state, wit)
    finally:
        ex.rnd = None
        env.close()


def shard_stress(ctx, label, n, sub):
    adapter = adapter_by_label(label)
    rnd = random.Random("%s-%s-%s-c10" % (ctx.seed, label, sub))
    flat = [f for fs in adapter.funcs().values() for f in fs]
    with thr.Explorer(flat) as ex:
        for i in range(n):
            stress_case(ctx, ex, adapter, rnd, {"seed": ctx.seed, "sub": sub, "i": i})
        ctx.count("line_events", ex.events)
    ctx.sample({"executor": label, "mode": "chain-stress"})


def main(ctx):
    logging.disable(logging.CRITICAL)
    parts = ctx.pick(2, 4)
    args = [{"label": a.label(), "part": p, "parts": parts} for a in ADAPTERS for p in range(parts)]
    ctx.shards("shard_systematic", args, timeout=ctx.pick(900, 3400))
    n = ctx.pick(6, 150)
    ctx.shards("shard_stress", [{"label": a.label(), "n": n, "sub": s} for a in ADAPTERS for s in range(2)], timeout=ctx.pick(900, 3400))
    ctx.require("park_points_reached", 150)
    ctx.require("submissions_while_background_parked", 80)
    ctx.require("background_ran_while_submitter_parked", 30)
    ctx.require("stress_chains", 60)


def replay(ctx, witness):
    print(witness)
