"""C18 — expression identity matches the call it denotes.

Monitor: get_hash() of generated Task/Scheduler/Simple/Value expressions and of every single-field
variant (kind, name, one argument, one keyword, call-time options, exported options); equal hashes for
different fields are violations.  Pickle round trips (redun's own pickle_dumps/loads) must preserve
hash, arguments and options and reset per-run bookkeeping.  One end-to-end scenario per run checks the
consequence: two task expressions differing only in options under one parent each get a job.
"""
import random

from redun.expression import SchedulerExpression, SimpleExpression, TaskExpression, ValueExpression
from redun.utils import pickle_dumps, pickle_loads
from redun.value import get_type_registry

from vlib import ctl, engine, wf_tasks

PROPERTY = "C18"
LEVEL = "exploration"
RULE = ("generated expressions: kind in {task, scheduler, simple, value}, name, 0-3 positional and 0-2 keyword "
        "arguments (ints, strs, lists, nested expressions), call-time options (0-3 keys), exported option names; "
        "each compared with all single-field variants and with its pickle round trip.  Non-trivial = distinct "
        "(expression spec, variant field) pair.")
ASSUMPTIONS = ["hash equality for equal fields is only required for identically constructed expressions"]


def gen_value(rnd, depth=1):
    r = rnd.random()
    if r < 0.4 or depth <= 0:
        return rnd.choice([0, 1, 2, "a", "b", None, 1.5, True])
    if r < 0.6:
        return [gen_value(rnd, depth - 1) for _ in range(rnd.randint(0, 2))]
    if r < 0.7:
        return {"k": gen_value(rnd, depth - 1)}
    # nested expression
    return ["expr", gen_spec(rnd, depth - 1)]


def _operators():
    from redun import expression
    return sorted(expression._lazy_operation_registry)


OPERATORS = _operators()


def real_operator_pairs(ctx, rnd, where):
    """Expressions built through the real operator overloads: forward and reflected forms and different operators on
    the same operands must hash differently."""
    import operator as op
    from redun import task as _t  # noqa: F401
    x = TaskExpression("ns.f", (rnd.randint(0, 5),), {})
    v = rnd.choice([1, "s", [1, 2], (3,), 2.5])
    forms = {
        "x+v": lambda: x + v, "v+x": lambda: v + x, "x-v": lambda: x - v, "v-x": lambda: v - x,
        "x*v": lambda: x * v, "v*x": lambda: v * x, "x/v": lambda: x / v, "v/x": lambda: v / x,
        "x<v": lambda: x < v, "x<=v": lambda: x <= v, "x>v": lambda: x > v, "x>=v": lambda: x >= v,
        "x==v": lambda: x == v, "x!=v": lambda: x != v, "x&v": lambda: x & v, "v&x": lambda: v & x,
        "x|v": lambda: x | v, "v|x": lambda: v | x, "x[v]": lambda: x[v] if not isinstance(v, list) else x[0],
        "x(v)": lambda: x(v), "x.a": lambda: x.a,
    }
    built = {}
    for name, fn in forms.items():
        try:
            built[name] = fn()
        except TypeError:
            continue
    ctx.ev()
    names = sorted(built)
    for i, a in enumerate(names):
        for b in names[i + 1:]:
            ctx.count("pairs_compared")
            ctx.count("field_real-operator-forms")
            ctx.nontrivial(["real-operator", a, b, repr(v)])
            if built[a].get_hash() == built[b].get_hash():
                ctx.violation("unclassified", "lazy expressions %s and %s (x a task call, v=%r) have the same hash" % (a, b, v),
                              {"forms": [a, b], "v": repr(v), "where": where})


def gen_spec(rnd, depth=2):
    kind = rnd.choice(["task", "task", "sched", "simple", "value"])
    if kind == "value":
        return {"kind": "value", "value": rnd.choice([0, 1, "x", [1, 2], {"a": 1}])}
    names = ["ns.f", "ns.g", "add", "getitem", "redun.cond", "redun.catch"]
    if kind == "simple" and rnd.random() < 0.7:
        names = OPERATORS
    spec = {"kind": kind,
            "name": rnd.choice(names),
            "args": [gen_value(rnd, depth) for _ in range(rnd.randint(0, 3))],
            "kwargs": {k: gen_value(rnd, depth) for k in rnd.sample(["x", "y", "z"], rnd.randint(0, 2))}}
    if kind in ("task", "sched"):
        spec["options"] = {k: rnd.choice([1, 2, "v", "NONE"]) for k in
                           rnd.sample(["memory", "executor", "cache_scope", "check_valid"], rnd.randint(0, 3))}
        spec["export"] = sorted(rnd.sample(["prov", "executor", "memory"], rnd.randint(0, 2)))
        spec["length"] = rnd.choice([None, None, 2])
    return spec


def mk_value(v):
    if isinstance(v, list) and len(v) == 2 and v[0] == "expr" and isinstance(v[1], dict):
        return build(v[1])
    if isinstance(v, list):
        return [mk_value(x) for x in v]
    if isinstance(v, dict):
        return {k: mk_value(x) for k, x in v.items()}
    return v


def build(spec):
    k = spec["kind"]
    if k == "value":
        return ValueExpression(mk_value(spec["value"]))
    args = tuple(mk_value(a) for a in spec["args"])
    kwargs = {kk: mk_value(a) for kk, a in spec["kwargs"].items()}
    if k == "simple":
        return SimpleExpression(spec["name"], args, kwargs)
    cls = TaskExpression if k == "task" else SchedulerExpression
    return cls(spec["name"], args, kwargs, task_options=dict(spec["options"]), export_options=set(spec["export"]),
               length=spec["length"])


def variants(rnd, spec):
    out = []
    k = spec["kind"]
    if k == "value":
        out.append(("value", dict(spec, value=[spec["value"], "changed"])))
        return out
    out.append(("name", dict(spec, name=spec["name"] + "2")))
    for i in range(len(spec["args"])):
        a = list(spec["args"])
        a[i] = [a[i], "changed"]
        out.append(("arg", dict(spec, args=a)))
    out.append(("arg-added", dict(spec, args=list(spec["args"]) + [7])))
    for kk in spec["kwargs"]:
        out.append(("kwarg", dict(spec, kwargs=dict(spec["kwargs"], **{kk: "changed"}))))
    out.append(("kwarg-added", dict(spec, kwargs=dict(spec["kwargs"], w=1))))
    if spec["args"]:
        # positional -> keyword is a different call
        out.append(("arg-to-kwarg", dict(spec, args=list(spec["args"])[:-1], kwargs=dict(spec["kwargs"], w=spec["args"][-1]))))
    if k in ("task", "sched"):
        out.append(("options-added", dict(spec, options=dict(spec["options"], vcpus=8))))
        for o in spec["options"]:
            out.append(("options-value", dict(spec, options=dict(spec["options"], **{o: "other"}))))
            rest = dict(spec["options"])
            del rest[o]
            out.append(("options-removed", dict(spec, options=rest)))
        out.append(("export-added", dict(spec, export=sorted(set(spec["export"]) | {"queue"}))))
        out.append(("kind", dict(spec, kind="sched" if k == "task" else "task")))
    if k == "simple":
        s2 = dict(spec, kind="task", options={}, export=[], length=None)
        out.append(("kind", s2))
        # every other lazy operation on the same operands is a different call (x + v is not v + x, x < v is not x <= v)
        for op in OPERATORS:
            if op != spec["name"]:
                out.append(("operator", dict(spec, name=op)))
    return out


def classify(spec, field):
    if spec["kind"] == "sched" and field.startswith(("options", "export")):
        return "scheduler-expression-hash-omits-options"
    return "unclassified"


def run_case(ctx, rnd, spec, where):
    ctx.ev()
    e = build(spec)
    h = e.get_hash()
    if build(spec).get_hash() != h:
        ctx.violation("unclassified", "identically constructed expressions hash differently", {"spec": spec, "where": where})
    for field, s2 in variants(rnd, spec):
        e2 = build(s2)
        ctx.count("pairs_compared")
        ctx.count("field_" + field)
        ctx.nontrivial([spec, field])
        if e2.get_hash() == h:
            ctx.violation(classify(spec, field), "%s expression: variant differing in %s has the same hash" % (spec["kind"], field),
                          {"spec": spec, "field": field, "variant": s2, "where": where})
    # pickle round trip
    if spec["kind"] != "value":
        e.call_hash = "bookkeeping" if hasattr(e, "call_hash") else None
        e._upstreams = ["stale"]
    try:
        e3 = pickle_loads(pickle_dumps(e))
    except Exception as ex:
        ctx.violation("unclassified", "pickle round trip raised %r" % (ex,), {"spec": spec, "where": where})
        return
    ctx.count("roundtrips")
    reg = get_type_registry()
    problems = []
    if e3.get_hash() != h:
        problems.append("hash")
    if type(e3) is not type(e):
        problems.append("type")
    if spec["kind"] == "value":
        if reg.get_hash(e3.value) != reg.get_hash(e.value):
            problems.append("value")
        if e3._upstreams != []:
            problems.append("upstreams-not-reset")
    else:
        if reg.get_hash(e3.args) != reg.get_hash(e.args) or reg.get_hash(e3.kwargs) != reg.get_hash(e.kwargs):
            problems.append("arguments")
        if len(e3.args) != len(e.args) or sorted(e3.kwargs) != sorted(e.kwargs):
            problems.append("argument-shape")
        ups = e3._upstreams
        if not (isinstance(ups, list) and len(ups) == 2 and ups[0] is e3.args and ups[1] is e3.kwargs):
            problems.append("upstreams-not-reset")
        if spec["kind"] in ("task", "sched"):
            if e3._options != e._options:
                problems.append("options")
            if e3._export_options != e._export_options:
                problems.append("export_options")
            if e3._length != e._length:
                problems.append("length")
            if e3.call_hash is not None:
                problems.append("call_hash-not-reset")
            if getattr(e3, "task_name", None) != e.task_name:
                problems.append("task_name")
        else:
            if e3.func_name != e.func_name:
                problems.append("func_name")
    for pb in problems:
        ctx.violation("roundtrip-" + pb, "pickle round trip does not preserve/reset %s" % pb, {"spec": spec, "where": where})


def shard(ctx, n, sub):
    rnd = random.Random("%s-%s-c18" % (ctx.seed, sub))
    for i in range(n):
        spec = gen_spec(rnd)
        run_case(ctx, rnd, spec, {"seed": ctx.seed, "sub": sub, "i": i})
        if i < 2:
            ctx.sample({"spec": spec, "repr": repr(build(spec))[:200]})
        if i % 10 == 0:
            real_operator_pairs(ctx, rnd, {"seed": ctx.seed, "sub": sub, "i": i})
    # end-to-end consequence: expressions differing only in call-time options under one parent job each get a job
    backend = engine.new_backend()
    inc = wf_tasks.TASKS["inc"]
    for j in range(ctx.pick(3, 40)):
        x = rnd.randint(0, 5)
        exprs = [inc.options(memory=1)(x), inc.options(memory=2)(x), inc(x), inc.options(memory=1)(x)]
        out, c, s = engine.run_controlled(exprs, ctl.RandomChooser(j), backend=backend, cache=False)
        ctx.count("e2e_runs")
        njobs = sum(1 for jid in c.job_order if c.jobs[jid]["task"] == "vwf.inc")
        if out[0] != "v" or out[1] != [x + 1] * 4:
            ctx.violation("unclassified", "e2e run failed: %r" % (engine.outcome_key(out),), {"x": x})
        elif njobs != 3:
            ctx.violation("e2e-merge", "expected 3 jobs (3 distinct expressions, one repeated), saw %d" % njobs, {"x": x})


def main(ctx):
    n = ctx.pick(150, 40000)
    ctx.shards("shard", [{"n": n, "sub": s} for s in range(16)])
    ctx.require("pairs_compared", 5000)
    ctx.require("roundtrips", 1000)
    ctx.require("e2e_runs", 10)


def replay(ctx, witness):
    print(witness["spec"], "->", repr(build(witness["spec"])))
    run_case(ctx, random.Random(0), witness["spec"], witness.get("where"))
