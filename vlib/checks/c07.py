"""C07 — results and recorded call graph do not depend on timing.

Monitor: each generated program (including handle-passing ones) is executed on a fresh backend under K
completion orders x L resource-limit configurations (from effectively unlimited to fully serial); after
each run the canonical result, the set of call-node hashes, the map call hash -> recorded argument
value hashes and the set of handle hashes are read from the database.  Oracle: all runs of one program
agree.  Findings are classified counterfactually (does the disagreement need limits? does it need two
sibling calls receiving the same handle?).
"""
import random

import sqlalchemy

from vlib import ctl, engine, sched_explore as sx, wf

PROPERTY = "C07"
LEVEL = "exploration"
RULE = ("C01-style generated programs (all calls demanding resource r1) and handle programs (same handle to sibling "
        "calls, chained, nested in a child job, merged) x schedules {4 extremes + random/PCT} x caps r1 in {100, 2, 1}; "
        "non-trivial = distinct program with >=3 executor jobs for which >=2 distinct schedule signatures were "
        "observed.")
ASSUMPTIONS = ["fresh in-memory backend per run, so nothing is served from an earlier run's cache",
               "timestamps, job ids and which duplicate is marked cached are excluded from the comparison"]


def handle_program(rnd):
    h = ["handle", "h%d" % rnd.randint(0, 2)]
    x = rnd.randint(0, 3)
    slow = ["call", "inc2", [["val", x]], {}, {}]       # two jobs: becomes ready later
    fast = ["val", x]
    shape = rnd.choice(["siblings", "siblings3", "chained", "nested", "merged", "mixed", "solo", "two_states", "two_states"])
    def step(arg, hh=None):
        return ["call", "h_step", [hh or h, arg], {}, {}]
    if shape == "two_states":
        # two different states of one handle (both derived in creation order from immediately-ready calls) are passed on
        # to two further calls whose readiness depends on which upstream job finishes first
        a, b = x + 10, x + 20
        left = ["call", "h_step", [step(["val", a]), slow], {}, {}]
        right = ["call", "h_step", [step(["val", b]), rnd.choice([fast, ["call", "inc", [["val", x]], {}, {}]])], {}, {}]
        return ["cont", "list", [left, right]], shape
    if shape == "siblings":
        return ["cont", "list", [step(slow), step(fast)]], shape
    if shape == "siblings3":
        return ["cont", "list", [step(slow), step(["call", "inc", [["val", x]], {}, {}]), step(fast)]], shape
    if shape == "chained":
        return step(fast, step(slow)), shape
    if shape == "nested":
        return ["cont", "list", [["call", "h_two", [h], {}, {}], ["call", "h_use", [h, slow], {}, {}]]], shape
    if shape == "merged":
        return ["merge_handles", [step(slow), step(fast)]], shape
    if shape == "solo":
        return ["cont", "list", [step(slow), ["call", "h_use", [["handle", "other"], fast], {}, {}]]], shape
    return ["cont", "tuple", [step(fast, step(slow)), step(["call", "inc", [["val", 7]], {}, {}])]], shape


def has_unknown_executor_twin(ast):
    """A call whose executor option names no configured executor, and an equal call (task, arguments) without it."""
    bad, good = set(), set()

    def fn(c):
        key = repr((c[1], c[2], c[3]))
        (bad if c[4].get("executor") == "no_such_executor" else good).add(key)
        return c
    wf.map_calls(ast, fn)
    return bool(bad & good)


def has_fork(n):
    """The program forks a thread (fork_thread directly or through the thread_roundtrip / mk_thread templates)."""
    if isinstance(n, list) and n and n[0] == "fork":
        return True
    if isinstance(n, list) and n and n[0] == "call" and n[1] in ("thread_roundtrip", "mk_thread"):
        return True
    return any(has_fork(c) for c in wf.children(n)) if isinstance(n, list) and n and isinstance(n[0], str) else False


def has_multi_element_set(n):
    if isinstance(n, list) and n and n[0] == "cont" and n[1] == "set" and len(n[2]) >= 2:
        return True
    return any(has_multi_element_set(c) for c in wf.children(n)) if isinstance(n, list) and n and isinstance(n[0], str) else False


def with_r1(ast):
    def fn(c):
        c[4] = dict(c[4], limits=["r1"])
        return c
    return wf.map_calls(ast, fn)


def observe(s):
    """Timing-independent view of the recorded call graph."""
    ses = s.backend.session
    q = lambda sql: ses.execute(sqlalchemy.text(sql)).fetchall()  # noqa: E731
    calls = sorted(r[0] for r in q("select call_hash from call_node"))
    args = sorted((r[0], str(r[1]), str(r[2]), r[3]) for r in q("select call_hash, arg_position, arg_key, value_hash from argument"))
    handles = sorted(r[0] for r in q("select hash from handle"))
    edges = sorted((r[0], r[1]) for r in q("select parent_id, child_id from call_edge"))
    return {"call_hashes": calls, "arguments": args, "handle_hashes": handles, "edges": edges}


def first_diff(a, b):
    keys = ("result",) if (a.get("had_failure") or b.get("had_failure")) else ("result", "call_hashes", "arguments", "handle_hashes", "edges")
    for k in keys:
        if a[k] != b[k]:
            if isinstance(a[k], list):
                sa, sb = set(map(repr, a[k])), set(map(repr, b[k]))
                return k, sorted(sa - sb)[:2], sorted(sb - sa)[:2]
            return k, a[k], b[k]
    return None


def run_program(ctx, rnd, ast, is_handle, shape, n_sched, where):
    ast = with_r1(ast)
    views = []   # (cap, schedule name, view, waited)
    sigs = set()
    njobs = 0
    for cap in (100, 2, 1):
        for name, ch in engine.choosers(rnd, n_sched):
            out, c, s = engine.run_controlled(wf.build(ast), ch, limits={"r1": cap}, cache=True)
            ctx.count("runs")
            if out[0] in ("deadlock", "steplimit"):
                ctx.count("runs_not_terminated_seen_by_other_check")
                continue
            v = observe(s)
            v["result"] = engine.outcome_key(out)
            # When some job fails, the work that is still in flight is abandoned as soon as the failure decides the
            # outcome (or is caught): which sibling calls got recorded by then legitimately depends on timing.  The
            # call graph is therefore compared only between runs in which no job failed; results are always compared.
            v["had_failure"] = any(isinstance(i.get("settled"), tuple) and i["settled"][:1] == ("err",) for i in c.jobs.values())
            if v["had_failure"]:
                ctx.count("runs_with_a_failed_job")
            views.append((cap, name, v, c.waited_on_limits))
            sigs.add(c.signature())
            njobs = max(njobs, len(c.submits))
            if c.waited_on_limits:
                ctx.count("runs_in_which_a_job_waited_for_limits")
            # thousands of runs per process: release the in-memory database and the job graph of this run
            try:
                s.backend.session.close()
                s.backend.engine.dispose()
            except Exception:
                pass
            c.jobs.clear()
            del out, c, s
    ctx.ev()
    ctx.count("distinct_schedule_signatures", len(sigs))
    if njobs >= 3 and len(sigs) >= 2:
        ctx.nontrivial(ast)
    if not views:
        return
    base = views[0]
    unlimited = [v for v in views if v[0] == 100]
    dis_unlimited = next((v for v in unlimited[1:] if first_diff(unlimited[0][2], v[2])), None)
    dis_any = next((v for v in views[1:] if first_diff(base[2], v[2])), None)
    if not dis_any:
        ctx.count("programs_all_runs_agree")
        return
    d = first_diff(base[2], dis_any[2])
    wit = {"ast": ast, "a": [base[0], base[1]], "b": [dis_any[0], dis_any[1]], "differs_in": d[0], "where": where}
    if not is_handle:
        mech = "call-graph-depends-on-timing"
    elif shape in ("siblings", "siblings3", "nested", "merged", "mixed"):
        # two calls under one parent receive the same handle: the fork key ("call order") of each is assigned in
        # the order in which the sibling jobs become ready, which depends on completion order and limit pressure
        mech = "handle-fork-key-follows-sibling-arrival-order"
    elif dis_unlimited is None and any(w for _, _, _, w in views):
        # no sibling sharing; only runs under limit pressure disagree with the unlimited ones
        mech = "handle-forked-again-when-job-reenters-after-waiting-for-limits"
    else:
        mech = "call-graph-depends-on-timing"
    if d[0] == "result" and base[2]["result"][0] != dis_any[2]["result"][0]:
        mech = "result-kind-depends-on-timing"
    if not is_handle and d[0] != "result" and has_fork(ast):
        mech = "forked-thread-child-in-parent-record-depends-on-completion-order"
    if d[0] == "result" and has_unknown_executor_twin(ast) and any(
            "Unknown executor" in repr(v[2]["result"]) for v in (base, dis_any)):
        mech = "unknown-executor-call-shares-identity-with-valid-twin"
    ctx.violation(mech, "runs (cap=%s, %s) and (cap=%s, %s) differ in %s: %r vs %r" % (
        base[0], base[1], dis_any[0], dis_any[1], d[0], d[1], d[2]), wit)


def shard(ctx, n, sub, n_sched):
    rnd = random.Random("%s-%s-c07" % (ctx.seed, sub))
    for i in range(n):
        where = {"seed": ctx.seed, "sub": sub, "i": i, "n_sched": n_sched}
        if i % 2 == 0:
            ast, shape = handle_program(rnd)
            ctx.count("handle_programs")
            ctx.count("handle_shape_" + shape)
            run_program(ctx, rnd, ast, True, shape, n_sched, where)
        else:
            ast, shape = sx.dup_program(rnd, depth=rnd.choice([2, 3]))
            if shape == "limited":
                ast, shape = wf.Gen(rnd, max_depth=3, fan=2, err_budget=0, allow=sx.LIMIT_SAFE).program(), "generated"
            try:
                wf.expected_outcomes(ast)
            except wf.RefTooBig:
                continue
            if has_multi_element_set(ast):
                # hashes of values holding a set of >=2 elements below the top level are not canonical (open C16/C20
                # finding); they differ between any two runs, whatever the schedule
                ctx.count("programs_with_sets_skipped")
                continue
            ctx.count("plain_programs")
            run_program(ctx, rnd, ast, False, shape, n_sched, where)
        if i < 2:
            ctx.sample({"ast": ast})


def main(ctx):
    if ctx.is_quick():
        ctx.shards("shard", [{"n": 5, "sub": s, "n_sched": 4} for s in range(16)], timeout=900)
    else:
        ctx.shards("shard", [{"n": 60, "sub": s, "n_sched": 12} for s in range(16)], timeout=3400)
    ctx.require("runs", 500)
    ctx.require("runs_in_which_a_job_waited_for_limits", 50)
    ctx.require("handle_programs", 20)
    ctx.require("plain_programs", 20)


def replay(ctx, witness):
    import json
    print(json.dumps(witness["ast"]))
    views = []
    for cap, name in (witness["a"], witness["b"]):
        out, c, s = engine.run_controlled(wf.build(witness["ast"]), engine.chooser_from_name(name), limits={"r1": cap})
        v = observe(s)
        v["result"] = engine.outcome_key(out)
        v["had_failure"] = any(isinstance(i.get("settled"), tuple) and i["settled"][:1] == ("err",) for i in c.jobs.values())
        views.append(v)
        print("cap", cap, "schedule", name, "->", v["result"], len(v["call_hashes"]), "call nodes", v["handle_hashes"])
    d = first_diff(views[0], views[1])
    if d:
        ctx.violation("reproduced", "differ in %s: %r vs %r" % d, witness)
