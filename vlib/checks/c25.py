"""C25 — handle lineage and rollback follow the state model.

(1) Backend level: histories of advance (single / merged parents, forked parents) and rollback are
applied to the real backend; after every operation is_valid_handle of every known state is compared
with a reference lineage model.  (2) Workflow level: a chain of handle-writing tasks is executed
repeatedly on one backend with edits and reverts of the steps; a step whose recorded result holds a
handle state that has since been rolled back must be executed again, and every result must equal the
empty-backend result.
"""
import itertools
import random

from vlib import ctl, engine, hist, trace
from vlib.wf_tasks import VHandle

PROPERTY = "C25"
LEVEL = "exploration"
RULE = ("backend level: all op sequences up to a length bound (then random to length 14) over advance(parents in "
        "{one, two, forked}, child) and rollback(state) on 2 handle names x 5 states; workflow level: chains of 3 "
        "handle-writing steps (+ a fork/merge variant) with 4-7 executions and edits/reverts between them.  Non-trivial = "
        "distinct history containing a rollback of a state that has recorded descendants, followed by a re-advance.")
ASSUMPTIONS = ["a state that was never recorded is invalid",
               "rollback(h) invalidates what is reachable from h through edges whose parent is currently valid (the "
               "traversal redun documents: 'past children of handle are invalid'); states kept valid by another live "
               "parent path are reported as observations, see DESIGN.md"]

NAMES = ["hA", "hB"]
NSTATES = 5


def mk(name, i, forked=False):
    h = VHandle(name)
    if i > 0:
        h = h.apply_call("call-%d" % i)
    if forked:
        h = h.fork("fk")
    return h


_MK = mk


class Model:
    def __init__(self):
        self.valid = {}       # hash -> bool
        self.edges = set()    # (parent hash, child hash)
        self.name = {}

    def touch(self, h):
        self.valid[h.__handle__.hash] = True
        self.name[h.__handle__.hash] = h.__handle__.fullname

    def advance(self, parents, child):
        for p in parents:
            fp = p.__handle__.fork_parent
            while fp is not None:
                self.touch(fp)
                fp = fp.__handle__.fork_parent
        self.touch(child)
        for p in parents:
            self.touch(p)
            self.edges.add((p.__handle__.hash, child.__handle__.hash))

    def rollback(self, h, strict):
        hh = h.__handle__.hash
        if not self.valid.get(hh):
            if not strict:
                return set()
        out = set()
        queue = [c for p, c in self.edges if p == hh and self.name.get(p) == h.__handle__.fullname]
        while queue:
            x = queue.pop()
            if x in out:
                continue
            out.add(x)
            queue.extend(c for p, c in self.edges if p == x and (strict or self.valid.get(p)) and self.name.get(p) == h.__handle__.fullname)
        return out


def run_history(ctx, backend, ops, tag, reuse=False):
    """ops: ("adv", name, [parent specs], child spec) | ("rb", name, spec); spec = [i, forked].
    reuse=True passes the handle objects of earlier operations again (as merge_handles and cached results do: such
    objects are already marked as recorded) instead of freshly built equal ones."""
    m = Model()
    states = {}
    pool = {}

    def mk(name, i, forked=False):
        h = _MK(name, i, forked)
        if reuse:
            return pool.setdefault(h.__handle__.hash, h)
        return h
    rolled_with_desc = False
    interesting = False
    for step, op in enumerate(ops):
        name = "%s_%s" % (op[1], tag)
        if op[0] == "adv":
            parents = [mk(name, *sp) for sp in op[2]]
            child = mk(name, *op[3])
            try:
                backend.advance_handle(parents, child)
            except Exception as e:
                ctx.violation("advance-raised", "%r" % (e,), {"ops": ops, "step": step, "reuse": reuse})
                return
            before = dict(m.valid)
            m.advance(parents, child)
            for h in parents + [child]:
                states[h.__handle__.hash] = h
                fp = h.__handle__.fork_parent
                while fp is not None:
                    states.setdefault(fp.__handle__.hash, fp)
                    fp = fp.__handle__.fork_parent
            # The statement says when a state is valid: rolled back -> invalid, derived again -> valid.  Whether merely
            # *using* an invalidated state as a parent (or as the fork parent of a parent) re-validates it is not specified
            # (redun does so for a fresh object and does not for an object it already recorded): the model adopts what
            # the backend says for exactly these states.
            for hh, now_valid in list(m.valid.items()):
                if now_valid and before.get(hh) is False and hh != child.__handle__.hash and hh in states:
                    m.valid[hh] = bool(backend.is_valid_handle(states[hh]))
                    ctx.count("unspecified_validity_of_invalid_parent_adopted")
            if rolled_with_desc:
                interesting = True
        else:
            h = mk(name, *op[2])
            states.setdefault(h.__handle__.hash, h)
            lenient = m.rollback(h, strict=False)
            strict = m.rollback(h, strict=True)
            try:
                backend.rollback_handle(h)
            except Exception as e:
                ctx.violation("rollback-raised", "%r" % (e,), {"ops": ops, "step": step, "reuse": reuse})
                return
            for x in lenient:
                m.valid[x] = False
            if lenient:
                rolled_with_desc = True
            if strict - lenient:
                ctx.count("descendants_kept_valid_behind_an_invalid_intermediate", len(strict - lenient))
        for hh, h in states.items():
            got = bool(backend.is_valid_handle(h))
            exp = bool(m.valid.get(hh, False))
            ctx.count("validity_comparisons")
            if got != exp:
                ctx.violation("validity-differs-from-lineage-model", "after step %d %r: state %s is %s, model says %s" % (
                    step, op, hh[:8], "valid" if got else "invalid", "valid" if exp else "invalid"), {"ops": ops, "step": step, "reuse": reuse})
                return
    ctx.ev()
    if interesting:
        ctx.nontrivial([ops, reuse])
        ctx.count("histories_with_rollback_then_readvance")
        if reuse:
            ctx.count("histories_with_reused_handle_objects")


def alphabet(small):
    ops = []
    names = NAMES[:1] if small else NAMES
    n = 3 if small else NSTATES
    for nm in names:
        for c in range(1, n):
            for p in range(0, n):
                if p != c:
                    ops.append(["adv", nm, [[p, False]], [c, False]])
        if not small:
            ops.append(["adv", nm, [[1, False], [2, False]], [3, False]])
            ops.append(["adv", nm, [[0, True]], [1, False]])
            ops.append(["adv", nm, [[2, True], [1, False]], [4, False]])
        for s in range(0, n):
            ops.append(["rb", nm, [s, False]])
    return ops


def shard_exh(ctx, length, start, step, small):
    backend = engine.new_backend()
    ops = alphabet(small)
    n = 0
    for i, seq in enumerate(itertools.product(ops, repeat=length)):
        if i % step != start:
            continue
        n += 1
        run_history(ctx, backend, [list(o) for o in seq], "e%d_%d" % (length, i))
        run_history(ctx, backend, [list(o) for o in seq], "u%d_%d" % (length, i), reuse=True)
        if n % 500 == 0:
            backend = engine.new_backend()


def shard_rand(ctx, n, sub):
    rnd = random.Random("%s-%s-c25" % (ctx.seed, sub))
    backend = engine.new_backend()
    ops = alphabet(False)
    for i in range(n):
        hist_ops = [rnd.choice(ops) for _ in range(rnd.randint(4, 14))]
        run_history(ctx, backend, hist_ops, "r%d" % i, reuse=(i % 2 == 1))
        if i < 2:
            ctx.sample({"ops": hist_ops})
        if i % 200 == 199:
            backend = engine.new_backend()


# ---- workflow level --------------------------------------------------------------------------------
from redun import merge_handles, task  # noqa: E402

W = {}
WSTATE = {}


def wdefine(name, variant):
    WSTATE[name] = variant

    def step(h, x=0):
        trace.enter(name, variant)
        # the handle may arrive nested inside a container argument
        if isinstance(h, (list, tuple)):
            return h[0]
        if isinstance(h, dict):
            return h["k"]
        return h
    step.__name__ = name
    step.__module__ = __name__
    W[name] = task(name=name, namespace="c25", source="c25:%s:%d" % (name, variant))(step)


def wexpr(shape):
    h = VHandle("wf_" + shape)
    a = W["sa"](h)
    b = W["sb"](a)
    if shape == "chain":
        return W["sc"](b)
    if shape == "chain_nested":
        # the same chain with every handle passed inside a container argument (list, dict, tuple in a keyword)
        b2 = W["sb"]([a])
        return W["sc"](h={"k": b2}, x=(1, 2))
    if shape == "forkmerge":
        return W["sc"](merge_handles([W["sb"](a, 1), W["sb"](a, 2)]))
    if shape == "mergeend":
        # the merged state is the final result and is not passed on to another task
        return merge_handles([W["sb"](a, 1), W["sc"](a, 2)])
    return [W["sc"](b), W["sb"](a, 5)]


def shard_workflow(ctx, n, sub):
    rnd = random.Random("%s-%s-c25wf" % (ctx.seed, sub))
    order = ["sa", "sb", "sc"]
    for i in range(n):
        for nm in order:
            wdefine(nm, 0)
        shape = rnd.choice(["chain", "forkmerge", "two", "mergeend", "mergeend", "chain_nested", "chain_nested"])
        backend = engine.new_backend()
        log = []
        past = {nm: {0} for nm in order}
        for e in range(rnd.randint(4, 7)):
            changed = None
            if e > 0:
                r = rnd.random()
                if r < 0.5:
                    changed = rnd.choice(order)
                    v = rnd.choice([x for x in range(3) if x != WSTATE[changed]])
                    back = [(nm, x) for nm in order for x in past[nm] if x != WSTATE[nm]]
                    if back and rnd.random() < 0.5:
                        changed, v = rnd.choice(back)      # revert some step to a body it had before
                    past[changed].add(WSTATE[changed])
                    wdefine(changed, v)
                    step_kind = "revert" if v in past[changed] else "edit"
                else:
                    step_kind = "nothing"
            else:
                step_kind = "start"
            trace.reset()
            out, c, s = engine.run_controlled(wexpr(shape), ctl.RandomChooser(rnd.randrange(1 << 30)), backend=backend)
            calls = trace.snapshot()
            key = engine.outcome_key(out)
            fout, fc, fs = engine.run_controlled(wexpr(shape), ctl.ExtremeChooser("eager_fifo"))
            fkey = engine.outcome_key(fout)
            invoked = {nm for nm, _ in calls}
            log.append([step_kind, changed, sorted(invoked), list(key)[:1]])
            ctx.count("workflow_executions")
            wit = {"shape": shape, "log": log, "where": {"seed": ctx.seed, "sub": sub, "i": i}}
            # "deriving a state again makes it valid again": every handle state the execution returned was derived in it
            if out[0] == "v":
                from redun import Handle
                from redun.utils import iter_nested_value
                for hv in iter_nested_value(out[1]):
                    if isinstance(hv, Handle):
                        ctx.count("returned_handle_states_checked")
                        if not backend.is_valid_handle(hv):
                            ctx.violation("returned-handle-state-invalid", "execution %d (%s %s) returned handle state %s which the "
                                          "backend reports as invalid" % (e, step_kind, changed, hv.__handle__.hash[:8]), wit)
            if step_kind == "nothing" and invoked:
                # nothing was edited and every recorded state is current: a re-execution means a valid state was taken
                # for a rolled-back one
                ctx.violation("valid-state-treated-as-rolled-back", "unchanged execution %d re-executed %r" % (e, sorted(invoked)), wit)
                break
            if step_kind == "nothing":
                ctx.count("unchanged_reruns_fully_replayed")
            if key != fkey:
                ctx.violation("workflow-result-differs-from-empty-backend", "execution %d (%s %s): %r vs %r" % (e, step_kind, changed, key, fkey), wit)
                break
            if changed:
                need = set(order[order.index(changed):])
                if shape == "mergeend" and changed != "sa":
                    need = {changed}      # sb and sc are siblings on different forks of sa's result
                if not need <= invoked:
                    ctx.violation("result-with-rolled-back-handle-replayed", "after %s of %s the steps %r were not executed again "
                                  "(invoked: %r)" % (step_kind, changed, sorted(need - invoked), sorted(invoked)), wit)
                    break
                ctx.count("workflow_reexecutions_checked")
                if step_kind == "revert":
                    ctx.count("workflow_reverts_checked")
        ctx.ev()
        ctx.nontrivial([shape, log])


def main(ctx):
    if ctx.is_quick():
        ctx.shards("shard_exh", [{"length": 1, "start": 0, "step": 1, "small": False},
                                 {"length": 2, "start": 0, "step": 1, "small": False}] +
                   [{"length": 3, "start": s, "step": 3, "small": True} for s in range(3)] +
                   [{"length": 4, "start": s, "step": 12, "small": True} for s in range(2)], timeout=600)
        ctx.shards("shard_rand", [{"n": 120, "sub": s} for s in range(5)], timeout=600)
        ctx.shards("shard_workflow", [{"n": 6, "sub": s} for s in range(12)], timeout=600)
        ctx.extra["exhaustive_lengths"] = "<=2 full alphabet, 3 small alphabet, 4 small alphabet sampled 1/6"
    else:
        ctx.shards("shard_exh", [{"length": 1, "start": 0, "step": 1, "small": False},
                                 {"length": 2, "start": 0, "step": 1, "small": False}] +
                   [{"length": 3, "start": s, "step": 16, "small": False} for s in range(16)] +
                   [{"length": 4, "start": s, "step": 8, "small": True} for s in range(8)] +
                   [{"length": 5, "start": s, "step": 32, "small": True} for s in range(32)], timeout=3400)
        ctx.shards("shard_rand", [{"n": 4000, "sub": s} for s in range(16)], timeout=3400)
        ctx.shards("shard_workflow", [{"n": 40, "sub": s} for s in range(16)], timeout=3400)
        ctx.extra["exhaustive_lengths"] = "<=3 full alphabet, 4-5 small alphabet"
    ctx.require("validity_comparisons", 20000)
    ctx.require("histories_with_rollback_then_readvance", 100)
    ctx.require("workflow_reexecutions_checked", 20)
    ctx.require("workflow_reverts_checked", 10)


def replay(ctx, witness):
    if "ops" in witness:
        print(witness["ops"])
        for reuse in ([witness["reuse"]] if "reuse" in witness else [False, True]):
            print("reuse handle objects:", reuse)
            run_history(ctx, engine.new_backend(), witness["ops"], "replay%d" % reuse, reuse=reuse)
    else:
        for l in witness["log"]:
            print(l)
        print("(workflow history: rerun the check with the recorded seed to reproduce)")
