"""C30 — file value hashes track the filesystem.

Monitor: op sequences on real files and directory trees in a scratch directory, for every file value
class (File/Dir/FileSet, immutable I*, content-hashed Content*, and their Staging variants).  After each
operation performed *through redun* (write, append, copy_to, stage, unstage, mkdir, rmdir) the object's
hash must equal the hash of a freshly constructed object; after external changes (rewrite, append,
truncate, touch, remove, recreate, add/remove member) is_valid() must be true exactly when the recorded
hash equals the fresh one; content-hashed values change hash exactly when paths/bytes change; hashing a
missing path is deterministic and does not raise.  mtimes are forced apart with os.utime.
"""
import os
import pickle
import random
import shutil
import tempfile

from redun import file as rf

import itertools as _it

_UNIQ = _it.count()     # scratch names never collide within a process
PROPERTY = "C30"
LEVEL = "exploration"
RULE = ("seeded op sequences of length 3-10 per object over {redun write, redun append, redun copy_to, stage, unstage, "
        "mkdir, rmdir, external rewrite (size or mtime changed), external same-bytes rewrite with new mtime, external "
        "remove, recreate, add/remove directory member}, for each of File, Dir, FileSet x {plain, I, Content} and the "
        "staging pairs; objects are sometimes pickled and unpickled first (as when passed between tasks) so that a "
        "recorded hash exists.  Non-trivial = distinct (class, op sequence) with >=1 redun op and >=1 external op.")
ASSUMPTIONS = ["local filesystem only", "mtimes are moved by at least 2 s between operations"]

FAMILIES = {"plain": (rf.File, rf.Dir, rf.FileSet, rf.StagingFile, rf.StagingDir),
            "I": (rf.IFile, rf.IDir, rf.IFileSet, rf.IStagingFile, rf.IStagingDir),
            "Content": (rf.ContentFile, rf.ContentDir, rf.ContentFileSet, rf.ContentStagingFile, rf.ContentStagingDir)}


class World:
    def __init__(self, d):
        self.d = d
        self.clock = 1_600_000_000

    def tick(self, path):
        self.clock += 10
        if os.path.exists(path):
            os.utime(path, (self.clock, self.clock))

    def ext_write(self, path, data):
        os.makedirs(os.path.dirname(path), exist_ok=True)
        with open(path, "w") as f:
            f.write(data)
        self.tick(path)


def fresh(obj):
    if isinstance(obj, rf.Dir):
        return type(obj)(obj.path)
    if isinstance(obj, rf.FileSet):
        return type(obj)(obj.pattern)
    return type(obj)(obj.path)


def safe_hash(ctx, obj, wit, what):
    try:
        return obj.hash
    except Exception as e:
        missing = not os.path.exists(getattr(obj, "path", "") or "/")
        mech = "content-hash-raises-on-missing-path" if (missing and type(obj).__name__.startswith("Content")) else "hash-raises"
        ctx.violation(mech, "%s: hashing %s raised %r" % (what, type(obj).__name__, e), wit)
        return None


def roundtrip(obj):
    return pickle.loads(pickle.dumps(obj))


def snapshot_bytes(path_or_pattern_obj):
    """(relative path, bytes) set for content comparison."""
    obj = path_or_pattern_obj
    out = []
    if isinstance(obj, rf.Dir):
        for root, _, files in os.walk(obj.path):
            for fn in files:
                p = os.path.join(root, fn)
                out.append((p, open(p, "rb").read()))
    elif isinstance(obj, rf.FileSet):
        import glob
        for p in glob.glob(obj.pattern, recursive=True):
            if os.path.isfile(p):
                out.append((p, open(p, "rb").read()))
    else:
        if os.path.isfile(obj.path):
            out.append((obj.path, open(obj.path, "rb").read()))
        else:
            out.append((obj.path, None))
    return sorted(out)


def file_case(ctx, rnd, fam, w, where):
    F, D, S, SF, SD = FAMILIES[fam]
    base = os.path.join(w.d, "f%d_%d" % (rnd.randrange(10 ** 6), next(_UNIQ)))
    os.makedirs(base)
    path = os.path.join(base, "a.txt")
    obj = F(path)
    ops = []
    wit = {"family": fam, "kind": "File", "ops": ops, "where": where}
    recorded = None
    recorded_bytes = None
    n_redun = n_ext = 0
    for _ in range(rnd.randint(3, 10)):
        op = rnd.choice(["r_write", "r_append", "r_copy_to", "r_stage", "r_unstage", "e_rewrite_size", "e_rewrite_same",
                         "e_touch", "e_remove", "e_recreate", "pickle", "record", "missing_hash"])
        ops.append(op)
        target = obj
        if op == "r_write":
            obj.write("data%d" % rnd.randint(0, 99))
        elif op == "r_append":
            if not os.path.exists(path):
                continue
            with obj.open("a") as f:
                f.write("+")
        elif op == "r_copy_to":
            if not os.path.exists(path):
                continue
            dest = F(os.path.join(base, "copy.txt"))
            if rnd.random() < 0.5 and os.path.exists(dest.path):
                dest = roundtrip(dest)      # a destination object that already carries a hash
            target = obj.copy_to(dest)
        elif op in ("r_stage", "r_unstage"):
            if not os.path.exists(path):
                continue
            other = F(os.path.join(base, "staged.txt"))
            st = SF(other.path, obj) if op == "r_stage" else SF(obj, other.path)
            if rnd.random() < 0.5:
                try:
                    st = roundtrip(st)
                except Exception as e:
                    ctx.violation("staging-pickle-raises", "%r" % (e,), wit)
                    continue
            if op == "r_stage":
                target = st.stage()
            else:
                target = st.unstage()
        elif op == "e_rewrite_size":
            w.ext_write(path, "x" * rnd.randint(1, 30))
            n_ext += 1
        elif op == "e_rewrite_same":
            if os.path.exists(path):
                data = open(path).read()
                w.ext_write(path, data)
                n_ext += 1
        elif op == "e_touch":
            w.tick(path)
            n_ext += 1
        elif op == "e_remove":
            if os.path.exists(path):
                os.unlink(path)
            n_ext += 1
        elif op == "e_recreate":
            w.ext_write(path, "recreated")
            n_ext += 1
        elif op == "pickle":
            try:
                obj = roundtrip(obj)
            except Exception as e:
                mech = "content-hash-raises-on-missing-path" if (fam == "Content" and not os.path.exists(path)) else "pickle-raises"
                ctx.violation(mech, "pickling %s raised %r" % (F.__name__, e), wit)
            continue
        elif op == "record":
            recorded = safe_hash(ctx, fresh(obj), wit, "record")
            recorded_bytes = snapshot_bytes(obj)
            continue
        elif op == "missing_hash":
            m = F(os.path.join(base, "never-existed-%d.txt" % rnd.randrange(100)))
            h1, h2 = safe_hash(ctx, m, wit, "missing path"), safe_hash(ctx, F(m.path), wit, "missing path")
            ctx.count("missing_path_hashes")
            if h1 is not None and h1 != h2:
                ctx.violation("missing-path-hash-not-deterministic", "two hashes of a missing path differ", wit)
            continue
        if op.startswith("r_"):
            n_redun += 1
            ctx.count("redun_ops")
            h, hf = safe_hash(ctx, target, wit, op), safe_hash(ctx, fresh(target), wit, op + " (fresh)")
            if h is not None and hf is not None and h != hf:
                ctx.violation("hash-stale-after-redun-%s:%s" % (op[2:], type(target).__name__),
                              "after %s the object's hash differs from a freshly computed one" % op, wit)
        # validity of a recorded hash
        if recorded is not None:
            holder = F.__new__(F)
            holder.__setstate__({"path": path, "hash": recorded})
            try:
                valid = holder.is_valid()
            except Exception as e:
                mech = "content-hash-raises-on-missing-path" if (fam == "Content" and not os.path.exists(path)) else "is_valid-raises"
                ctx.violation(mech, "is_valid raised %r after %s" % (e, op), wit)
                continue
            hf = safe_hash(ctx, fresh(obj), wit, "fresh")
            if hf is None:
                continue
            ctx.count("validity_checks")
            if fam == "I":
                if not valid:
                    ctx.violation("immutable-file-invalid", "IFile reported invalid", wit)
            else:
                if valid != (recorded == hf):
                    ctx.violation("validity-disagrees-with-hash", "is_valid()=%s but recorded %s fresh hash" % (
                        valid, "==" if recorded == hf else "!="), wit)
            if fam == "Content":
                same_bytes = snapshot_bytes(obj) == recorded_bytes
                ctx.count("content_comparisons")
                if same_bytes != (recorded == hf):
                    ctx.violation("content-hash-vs-bytes:%s" % F.__name__, "bytes %s but hash %s" % (
                        "unchanged" if same_bytes else "changed", "unchanged" if recorded == hf else "changed"), wit)
    ctx.ev()
    if n_redun and n_ext:
        ctx.nontrivial([fam, "File", ops])


def dir_case(ctx, rnd, fam, w, where, use_fileset):
    F, D, S, SF, SD = FAMILIES[fam]
    base = os.path.join(w.d, "d%d_%d" % (rnd.randrange(10 ** 6), next(_UNIQ)))
    root = os.path.join(base, "tree")
    os.makedirs(os.path.join(root, "sub"))
    w.ext_write(os.path.join(root, "a.txt"), "a")
    w.ext_write(os.path.join(root, "sub", "b.txt"), "b")
    obj = S(os.path.join(root, "**", "*.txt")) if use_fileset else D(root)
    kind = "FileSet" if use_fileset else "Dir"
    ops = []
    wit = {"family": fam, "kind": kind, "ops": ops, "where": where}
    recorded = None
    recorded_bytes = None
    n_redun = n_ext = 0
    for _ in range(rnd.randint(3, 9)):
        op = rnd.choice(["r_member_write", "r_copy_to", "r_stage", "r_unstage", "r_rmdir_mkdir", "e_add", "e_remove_member",
                         "e_rewrite_member", "e_touch_member", "e_same_bytes", "pickle", "record", "missing_hash"])
        ops.append(op)
        target = None
        members = []
        for r_, _, fs in os.walk(root):
            members += [os.path.join(r_, f) for f in fs]
        if op == "r_member_write" and not use_fileset:
            f = obj.file("w%d.txt" % rnd.randint(0, 2))
            f.write("m%d" % rnd.randint(0, 9))
            n_ext += 1   # from the Dir object's point of view this is a change of a member
        elif op == "r_copy_to" and not use_fileset:
            dest = D(os.path.join(base, "copy"))
            if os.path.exists(dest.path) and rnd.random() < 0.6:
                try:
                    dest = roundtrip(dest)
                except Exception:
                    pass
            target = obj.copy_to(dest)
        elif op in ("r_stage", "r_unstage") and not use_fileset:
            other = os.path.join(base, "staged")
            st = SD(other, obj) if op == "r_stage" else SD(obj, other)
            if rnd.random() < 0.6:
                try:
                    st = roundtrip(st)
                except Exception as e:
                    ctx.violation("staging-pickle-raises", "%r" % (e,), wit)
                    continue
            target = st.stage() if op == "r_stage" else st.unstage()
        elif op == "r_rmdir_mkdir" and not use_fileset:
            d2 = D(os.path.join(base, "tmpdir"))
            d2.mkdir()
            h1 = safe_hash(ctx, d2, wit, "mkdir")
            d2.file("z.txt").write("z")
            d2.rmdir(recursive=True)
            target = d2
        elif op == "e_add":
            w.ext_write(os.path.join(root, "n%d.txt" % rnd.randint(0, 3)), "new")
            n_ext += 1
        elif op == "e_remove_member" and members:
            os.unlink(rnd.choice(members))
            n_ext += 1
        elif op == "e_rewrite_member" and members:
            w.ext_write(rnd.choice(members), "y" * rnd.randint(1, 9))
            n_ext += 1
        elif op == "e_touch_member" and members:
            w.tick(rnd.choice(members))
            n_ext += 1
        elif op == "e_same_bytes" and members:
            p = rnd.choice(members)
            w.ext_write(p, open(p).read())
            n_ext += 1
        elif op == "pickle":
            try:
                obj = roundtrip(obj)
            except Exception as e:
                ctx.violation("pickle-raises", "pickling %s raised %r" % (type(obj).__name__, e), wit)
            continue
        elif op == "record":
            recorded = safe_hash(ctx, fresh(obj), wit, "record")
            recorded_bytes = snapshot_bytes(obj)
            continue
        elif op == "missing_hash":
            m = D(os.path.join(base, "no-such-dir-%d" % rnd.randrange(100)))
            h1, h2 = safe_hash(ctx, m, wit, "missing dir"), safe_hash(ctx, D(m.path), wit, "missing dir")
            ctx.count("missing_path_hashes")
            if h1 is not None and h1 != h2:
                ctx.violation("missing-path-hash-not-deterministic", "two hashes of a missing directory differ", wit)
            continue
        if target is not None:
            n_redun += 1
            ctx.count("redun_ops")
            h, hf = safe_hash(ctx, target, wit, op), safe_hash(ctx, fresh(target), wit, op + " (fresh)")
            if h is not None and hf is not None and h != hf:
                ctx.violation("hash-stale-after-redun-%s:%s" % (op[2:], type(target).__name__),
                              "after %s the returned object's hash differs from a freshly computed one" % op, wit)
        if recorded is not None:
            holder = type(obj).__new__(type(obj))
            if use_fileset:
                holder.__setstate__({"pattern": obj.pattern, "hash": recorded})
            else:
                holder.__setstate__({"path": obj.path, "hash": recorded})
            try:
                valid = holder.is_valid()
            except Exception as e:
                ctx.violation("is_valid-raises", "is_valid raised %r after %s" % (e, op), wit)
                continue
            hf = safe_hash(ctx, fresh(obj), wit, "fresh")
            if hf is None:
                continue
            ctx.count("validity_checks")
            if fam == "I":
                if not valid:
                    ctx.violation("immutable-value-invalid", "%s reported invalid" % type(obj).__name__, wit)
            elif valid != (recorded == hf):
                ctx.violation("validity-disagrees-with-hash", "is_valid()=%s but recorded %s fresh hash" % (
                    valid, "==" if recorded == hf else "!="), wit)
            if fam == "Content":
                same_bytes = snapshot_bytes(obj) == recorded_bytes
                ctx.count("content_comparisons")
                if same_bytes != (recorded == hf):
                    ctx.violation("content-hash-vs-bytes:%s" % type(obj).__name__, "bytes %s but hash %s" % (
                        "unchanged" if same_bytes else "changed", "unchanged" if recorded == hf else "changed"), wit)
    ctx.ev()
    if n_redun and n_ext:
        ctx.nontrivial([fam, kind, ops])


def shard(ctx, n, sub):
    rnd = random.Random("%s-%s-c30" % (ctx.seed, sub))
    d = tempfile.mkdtemp(prefix="verif_c30_")
    try:
        w = World(d)
        for i in range(n):
            fam = rnd.choice(list(FAMILIES))
            where = {"seed": ctx.seed, "sub": sub, "i": i}
            k = rnd.random()
            if k < 0.45:
                file_case(ctx, rnd, fam, w, where)
            else:
                dir_case(ctx, rnd, fam, w, where, use_fileset=k > 0.8)
            ctx.count("family_" + fam)
    finally:
        shutil.rmtree(d, ignore_errors=True)
    ctx.sample({"families": list(FAMILIES)})


def main(ctx):
    n = ctx.pick(100, 20000)
    ctx.shards("shard", [{"n": n, "sub": s} for s in range(16)], timeout=ctx.pick(600, 3400))
    ctx.require("redun_ops", 500)
    ctx.require("validity_checks", 500)
    ctx.require("content_comparisons", 100)
    ctx.require("missing_path_hashes", 50)


def replay(ctx, witness):
    print(witness)
    print("(rerun the check with the recorded seed to reproduce)")
